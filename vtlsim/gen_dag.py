"""Dependency-graph focused workload generator (C13, also used by C15/C16/C17 mixes).

Every dataset of a generated script has the same structure S = (Id_1 Integer, Id_2 String | Me_1 Number),
so that any earlier result of shape S can be an operand of any later statement; scalar results are
first-class.  What varies — and what the load/release schedule of the engine depends on — is *where*
a name is referenced: as a direct operand, inside a clause, as a join operand, inside a join clause,
as a UDO argument (dataset or scalar parameter), as the operand of a ruleset validation, inside a
condition, under membership, inside an aggregation/analytic invocation, nested in parentheses.
Each reference is recorded with its position kind so that coverage can be stated per kind.

The generator does not have to be right about validity: an operation is classified by what its
reference run does.
"""
import random

COMPS = [
    {"name": "Id_1", "type": "Integer", "role": "Identifier", "nullable": False},
    {"name": "Id_2", "type": "String", "role": "Identifier", "nullable": False},
    {"name": "Me_1", "type": "Number", "role": "Measure", "nullable": True},
]
COLS = ["Id_1", "Id_2", "Me_1"]

# (template, result shape, position kinds of the slots in order of appearance)
# slots: {a} {b} {c} datasets of shape S; {s} {t} scalars (a scalar result name or a literal)
DATASET_TEMPLATES = [
    ("{a} + {b}", "S", {"a": "direct", "b": "direct"}),
    ("{a} - {b} * {c}", "S", {"a": "direct", "b": "direct", "c": "direct"}),
    ("({a} + {b})[filter Me_1 > {s}]", "S", {"a": "paren", "b": "paren", "s": "clause"}),
    ("{a} * {s}", "S", {"a": "direct", "s": "direct-scalar"}),
    ("{a} + {s} - {t}", "S", {"a": "direct", "s": "direct-scalar", "t": "direct-scalar"}),
    ("{a}[filter Me_1 > {s}]", "S", {"a": "clause-operand", "s": "clause"}),
    ("{a}[filter Me_1 >= {s} and Me_1 <> {t}]", "S", {"a": "clause-operand", "s": "clause", "t": "clause"}),
    ("{a}[calc Me_1 := Me_1 + {s}]", "S", {"a": "clause-operand", "s": "clause"}),
    ("{a}[calc Me_1 := if Me_1 > {s} then Me_1 else {t}]", "S", {"a": "clause-operand", "s": "clause", "t": "clause"}),
    ("{a}[calc Me_1 := Me_1 * 2][filter Me_1 < {s}]", "S", {"a": "clause-operand", "s": "clause"}),
    ("{a}[aggr Me_1 := sum(Me_1) group by Id_1, Id_2 having avg(Me_1) > {k}]", "S", {"a": "clause-operand"}),
    ("{a}[aggr Me_1 := sum(Me_1 * {s}) group by Id_1, Id_2]", "S", {"a": "clause-operand", "s": "clause"}),
    ("union({a}, {b})", "S", {"a": "setop", "b": "setop"}),
    ("union({a}, {b}, {c})", "S", {"a": "setop", "b": "setop", "c": "setop"}),
    ("intersect({a}, {b})", "S", {"a": "setop", "b": "setop"}),
    ("setdiff({a}, {b})", "S", {"a": "setop", "b": "setop"}),
    ("symdiff({a}, {b})", "S", {"a": "setop", "b": "setop"}),
    ("if {a}#Me_1 > {s} then {b} else {c}", "S", {"a": "membership", "s": "direct-scalar", "b": "direct", "c": "direct"}),
    ("if {a} > {b} then {a} else {c}", "S", {"a": "direct", "b": "direct", "c": "direct"}),
    ("nvl({a}, {s})", "S", {"a": "direct", "s": "direct-scalar"}),
    ("nvl({a}[calc Me_1 := Me_1 / {s}], {t})", "S", {"a": "clause-operand", "s": "clause", "t": "direct-scalar"}),
    ("inner_join({a} as d1, {b} as d2 calc Me_1 := d1#Me_1 + d2#Me_1 keep Me_1)", "S", {"a": "join-operand", "b": "join-operand"}),
    ("inner_join({a} as d1, {b} as d2 filter d1#Me_1 > {s} calc Me_1 := d1#Me_1 + d2#Me_1 keep Me_1)", "S",
     {"a": "join-operand", "b": "join-operand", "s": "join-clause"}),
    ("left_join({a} as d1, {b} as d2 calc Me_1 := nvl(d2#Me_1, {s}) + d1#Me_1 keep Me_1)", "S",
     {"a": "join-operand", "b": "join-operand", "s": "join-clause"}),
    ("inner_join({a}[rename Me_1 to Me_a] as d1, {b}[rename Me_1 to Me_b] as d2 calc Me_1 := Me_a * Me_b + {s} keep Me_1)", "S",
     {"a": "join-operand", "b": "join-operand", "s": "join-clause"}),
    ("inner_join({a}, {b}[rename Me_1 to Me_2] calc Me_1 := Me_1 + Me_2 drop Me_2)", "S", {"a": "join-operand", "b": "join-operand"}),
    ("udo_add({a}, {b})", "S", {"a": "udo-dataset-arg", "b": "udo-dataset-arg"}),
    ("udo_scale({a}, {s})", "S", {"a": "udo-dataset-arg", "s": "udo-scalar-arg"}),
    ("udo_thr({a}, {s})", "S", {"a": "udo-dataset-arg", "s": "udo-scalar-arg"}),
    ("udo_add({a}[calc Me_1 := Me_1 + {s}], {b})", "S", {"a": "udo-dataset-arg", "s": "clause", "b": "udo-dataset-arg"}),
    ("udo_cmp({a}, Me_1)", "S", {"a": "udo-dataset-arg"}),
    ("udo_mix({a}, {s}, {b})", "S", {"a": "udo-dataset-arg", "s": "udo-scalar-arg", "b": "udo-dataset-arg"}),
    # scalar results inside *expressions* in argument positions (a bare name may be inlined, an expression is evaluated)
    ("udo_scale({a}, {s} + 1)", "S", {"a": "udo-dataset-arg", "s": "udo-scalar-arg-expr"}),
    ("udo_thr({a}, {s} * 2 - {t})", "S", {"a": "udo-dataset-arg", "s": "udo-scalar-arg-expr", "t": "udo-scalar-arg-expr"}),
    ("udo_mix({a}, abs({s}), {b})", "S", {"a": "udo-dataset-arg", "s": "udo-scalar-arg-expr", "b": "udo-dataset-arg"}),
    ("{a} * ({s} + 1)", "S", {"a": "direct", "s": "direct-scalar-expr"}),
    ("nvl({a}, {s} - 1)", "S", {"a": "direct", "s": "direct-scalar-expr"}),
    ("{a}[filter Me_1 > {s} * 2 - {t}]", "S", {"a": "clause-operand", "s": "clause-expr", "t": "clause-expr"}),
    ("between({a}, {s} - 1, {t} + 1)", "X", {"a": "direct", "s": "direct-scalar-expr", "t": "direct-scalar-expr"}),
    ("if {a}#Me_1 > {s} + {t} then {b} else {a}", "S", {"a": "membership", "s": "direct-scalar-expr", "t": "direct-scalar-expr", "b": "direct"}),
    ("udo_add({a} * 2, {b}[filter Me_1 > {s}])", "S", {"a": "udo-dataset-arg-expr", "b": "udo-dataset-arg-expr", "s": "clause"}),
    ("udo_scale({a} + {b}, {s})", "S", {"a": "udo-dataset-arg-expr", "b": "udo-dataset-arg-expr", "s": "udo-scalar-arg"}),
    ("exists_in({a}[filter Me_1 > {s}], {b} + {c}, all)", "X", {"a": "clause-operand", "s": "clause", "b": "direct", "c": "direct"}),
    ("case when {a}#Me_1 > {s} then {b} when {a}#Me_1 > {t} then {c} else {a}", "S", {"a": "membership", "s": "direct-scalar", "b": "direct", "t": "direct-scalar", "c": "direct"}),
    ("{a}[calc Me_1 := case when Me_1 > {s} then Me_1 else {t}]", "S", {"a": "clause-operand", "s": "clause", "t": "clause"}),
    ("{a}[unpivot Id_3, Me_9]", "X", {"a": "clause-operand"}),
    ("{a}[calc identifier Id_3 := Id_2 || \"x\"][sub Id_2 = \"A\"]", "X", {"a": "clause-operand"}),
    ("round({a} / 3, {k})", "S", {"a": "direct"}),
    ("abs({a}) + abs({b})", "S", {"a": "direct", "b": "direct"}),
    ("power({a}, {s})", "S", {"a": "direct", "s": "direct-scalar"}),
    ("{a}[sub Id_2 = \"A\"]", "X", {"a": "clause-operand"}),
    ("{a}[keep Me_1] + {b}[keep Me_1]", "S", {"a": "clause-operand", "b": "clause-operand"}),
    ("{a}[rename Me_1 to Me_9]", "X", {"a": "clause-operand"}),
    ("{a}[calc Me_2 := Me_1 + {s}][drop Me_1]", "X", {"a": "clause-operand", "s": "clause"}),
    ("sum({a} group by Id_1)", "X", {"a": "aggregation-operand"}),
    ("avg({a} + {b} group by Id_2)", "X", {"a": "aggregation-operand", "b": "aggregation-operand"}),
    ("count({a} group by Id_1 having sum(Me_1) > {k})", "X", {"a": "aggregation-operand"}),
    ("sum({a} over (partition by Id_1 order by Id_2))", "S", {"a": "analytic-operand"}),
    ("first_value({a} over (partition by Id_2 order by Id_1))", "S", {"a": "analytic-operand"}),
    ("exists_in({a}, {b}, all)", "X", {"a": "direct", "b": "direct"}),
    ("between({a}, {s}, {t})", "X", {"a": "direct", "s": "direct-scalar", "t": "direct-scalar"}),
    ("{a} > {s}", "X", {"a": "direct", "s": "direct-scalar"}),
    ("{a}#Me_1 + {b}#Me_1", "X", {"a": "membership", "b": "membership"}),
    ("check({a} > {b} errorcode \"E\" errorlevel 1 imbalance {a} - {b})", "X", {"a": "direct", "b": "direct"}),
    ("check({a}#Me_1 > {s} invalid)", "X", {"a": "membership", "s": "direct-scalar"}),
    ("check_datapoint({a}, dpr_1)", "X", {"a": "ruleset-operand"}),
    ("check_datapoint({a}[calc Me_1 := Me_1 - {s}], dpr_1 all)", "X", {"a": "ruleset-operand", "s": "clause"}),
    ("check_hierarchy({a}, hr_1 rule Id_2 non_zero)", "X", {"a": "ruleset-operand"}),
    ("hierarchy({a}, hr_1 rule Id_2 non_null all)", "S", {"a": "ruleset-operand"}),
    ("{a}[calc Me_1 := Me_1 + {s}] + {b}[filter Me_1 <> {t}]", "S", {"a": "clause-operand", "s": "clause", "b": "clause-operand", "t": "clause"}),
    ("{a}[filter Id_1 = {s}]", "S", {"a": "clause-operand", "s": "clause"}),
    ("{a}[filter Me_1 > {s}] * {s}", "S", {"a": "clause-operand", "s": "clause+direct"}),
    ("{a}", "S", {"a": "direct"}),
]

SCALAR_TEMPLATES = [
    ("{lit}", {}),
    ("{s} + 1", {"s": "direct-scalar"}),
    ("{s} * {t}", {"s": "direct-scalar", "t": "direct-scalar"}),
    ("if {s} > 2 then {s} else {t}", {"s": "direct-scalar", "t": "direct-scalar"}),
    ("abs({s} - 10)", {"s": "direct-scalar"}),
    ("nvl({s}, 0)", {"s": "direct-scalar"}),
    ("round({s} / 3, 2)", {"s": "direct-scalar"}),
]

DEFS = {
    "udo_add": "define operator udo_add (x dataset, y dataset) returns dataset is x + y end operator;",
    "udo_scale": "define operator udo_scale (x dataset, k number) returns dataset is x * k end operator;",
    "udo_thr": "define operator udo_thr (x dataset, k number default 2) returns dataset is x[filter Me_1 > k] end operator;",
    "udo_cmp": "define operator udo_cmp (x dataset, c component) returns dataset is x[calc Me_1 := c * 2] end operator;",
    "udo_twice": "define operator udo_twice (x dataset, y dataset) returns dataset is udo_add(udo_add(x, y), y) end operator;",
    "udo_mix": "define operator udo_mix (x dataset, k number, y dataset) returns dataset is x * k + y end operator;",
    "dpr_1": 'define datapoint ruleset dpr_1 (variable Me_1) is r1: Me_1 > 2 errorcode "low" errorlevel 1; r2: Me_1 < 100 end datapoint ruleset;',
    "hr_1": 'define hierarchical ruleset hr_1 (variable rule Id_2) is A = B + C errorcode "h" errorlevel 2; B >= C end hierarchical ruleset;',
}

NUM = [0, 1, 2, 3, 5, 7, 10, 12, 20, 50, -1, -4, 0.5, 1.5, 2.25, 10.75]


def _rows(rng, n):
    keys, rows = set(), []
    tries = 0
    while len(rows) < n and tries < n * 20:
        tries += 1
        k = (rng.randint(1, 3), rng.choice(["A", "B", "C"]))
        if k in keys:
            continue
        keys.add(k)
        rows.append([k[0], k[1], None if rng.random() < 0.1 else float(rng.choice(NUM))])
    return rows


def generate(rng, *, n_inputs=None, n_statements=None, rows=None, carriers=("df", "csv_text", "parquet_df"),
             scalar_bias=None, shuffle=True, persist_p=None):
    from .gen import csv_text

    k = n_inputs or rng.choice([1, 2, 2, 3, 4])
    m = n_statements or rng.choice([2, 3, 3, 4, 5, 6, 7, 8, 9, 10, 12])
    scalar_bias = rng.choice([0.15, 0.3, 0.5]) if scalar_bias is None else scalar_bias
    persist_p = rng.choice([0.2, 0.5, 0.8]) if persist_p is None else persist_p
    inputs = ["DS_%d" % (i + 1) for i in range(k)]
    ds_avail = list(inputs)       # names of shape S
    sc_avail = []                 # scalar result names
    stmts = []
    defs_used = set()
    edges = []                    # (producer, consumer, kind)

    def pick_ds():
        # bias to recent results (chains) but keep inputs and old results in play (late readers, fan-out)
        r = rng.random()
        if r < 0.35 and len(ds_avail) > k:
            return ds_avail[-1]
        if r < 0.55:
            return rng.choice(inputs)
        return rng.choice(ds_avail)

    def pick_sc():
        if sc_avail and rng.random() < 0.8:
            return rng.choice(sc_avail) if rng.random() < 0.6 else sc_avail[-1]
        return str(rng.choice([1, 2, 3, 5, 10, 1.5]))

    for i in range(m):
        make_scalar = rng.random() < scalar_bias and (not sc_avail or rng.random() < 0.5)
        if make_scalar:
            name = "sc_%d" % (i + 1)
            if rng.random() < 0.1:
                free = [n for n in ("k", "y", "d2") if n not in ds_avail and n not in sc_avail and all(n != s2["name"] for s2 in stmts)]
                if free:
                    name = rng.choice(free)
            tpl, kinds = rng.choice(SCALAR_TEMPLATES if sc_avail else SCALAR_TEMPLATES[:1] * 3 + SCALAR_TEMPLATES)
            vals = {"lit": str(rng.choice([2, 3, 5, 1.5, 10]))}
            for slot in kinds:
                vals[slot] = pick_sc()
            shape = "sc"
        else:
            name = rng.choice(["R_%d", "R_%d", "Out_%d", "tmp_%d"]) % (i + 1)
            if rng.random() < 0.12:
                # names that also occur in other roles elsewhere in a script: join aliases, UDO parameters
                free = [n for n in ("d1", "d2", "x", "y", "k") if n not in ds_avail and n not in sc_avail and all(n != s2["name"] for s2 in stmts)]
                if free:
                    name = rng.choice(free)
            tpl, shape, kinds = rng.choice(DATASET_TEMPLATES)
            vals = {"k": str(rng.choice([0, 1, 2]))}
            for slot, kind in kinds.items():
                vals[slot] = pick_sc() if slot in ("s", "t") else pick_ds()
        expr = tpl.format(**vals)
        for d in DEFS:
            if d in expr:
                defs_used.add(d)
        if "udo_twice" in expr:
            defs_used.add("udo_add")
        for slot, kind in kinds.items():
            v = vals[slot]
            if v[0].isalpha():
                edges.append((v, name, kind))
        persistent = rng.random() < persist_p
        stmts.append({"name": name, "op": "<-" if persistent else ":=", "expr": expr, "shape": shape})
        if shape == "S":
            ds_avail.append(name)
        elif shape == "sc":
            sc_avail.append(name)
    if not any(s["op"] == "<-" for s in stmts):
        stmts[-1]["op"] = "<-"
    written = list(stmts)
    if shuffle and len(written) > 1 and rng.random() < 0.6:
        rng.shuffle(written)
    lines = [DEFS[d] for d in sorted(defs_used)] + ["%s %s %s;" % (s["name"], s["op"], s["expr"]) for s in written]
    if rng.random() < 0.3:
        rng.shuffle(lines)
    script = "\n".join(lines) + "\n"
    structures = {"datasets": [{"name": n, "DataStructure": COMPS} for n in inputs]}
    data, nrows = {}, {}
    for n in inputs:
        nr = rows if rows is not None else rng.choice([0, 1, 2, 3, 4, 5, 6])
        rs = _rows(rng, nr)
        nrows[n] = len(rs)
        kind = rng.choice(list(carriers))
        if kind == "csv_text":
            data[n] = {"kind": "csv_text", "text": csv_text(COLS, rs)}
        else:
            data[n] = {"kind": kind, "columns": COLS, "rows": rs}
    order = [s["name"] for s in written]
    # reader-kind profile: per producer, the kinds of its readers in dependency (creation) order
    prof = {}
    for (p, c, kd) in edges:
        prof.setdefault(p, []).append(kd)
    meta = {
        "n_inputs": k, "n_statements": m,
        "inputs_used": sorted({p for (p, _c, _k) in edges if p in inputs}),
        "edges": sorted((p, c) for (p, c, _k) in edges),
        "edge_kinds": sorted(set(kd for (_p, _c, kd) in edges)),
        "reader_profiles": sorted(set("%s:%s" % ("I" if p in inputs else ("sc" if p in sc_avail else "R"), ">".join(v)) for p, v in prof.items())),
        "persist": "".join("P" if s["op"] == "<-" else "n" for s in written),
        "order": order, "shapes": {s["name"]: s["shape"] for s in stmts},
        "viral": False, "time_period": False, "nrows": nrows, "analytic": " over (" in script, "dag": True,
    }
    return {"script": script, "structures": structures, "data": data, "meta": meta}


# ---------------------------------------------------------------- systematic pairwise reader positions

def _slots():
    """(template index, slot, kind) for every dataset slot and every scalar slot of DATASET_TEMPLATES."""
    ds, sc = [], []
    for ti, (tpl, _shape, kinds) in enumerate(DATASET_TEMPLATES):
        for slot, kind in kinds.items():
            (sc if slot in ("s", "t") else ds).append((ti, slot, kind))
    return ds, sc


_space = {}


def pairwise_space(per_kind=2):
    if per_kind not in _space:
        _space[per_kind] = _pairwise_space(per_kind)
    return _space[per_kind]


def _pairwise_space(per_kind=2):
    """Descriptors of three-statement scripts `P; reader1(P); reader2(P)`: producer kind x position of the
    first reader x position of the second reader x persistence of the three statements x textual order.
    Positions are represented by `per_kind` (template, slot) representatives of each position kind."""
    import itertools

    ds, sc = _slots()

    def reps(slots):
        by = {}
        for s in slots:
            by.setdefault(s[2], []).append(s)
        out = []
        for kind in sorted(by):
            lst = by[kind]
            step = max(1, len(lst) // per_kind)
            out += lst[::step][:per_kind]
        return out

    dsr, scr = reps(ds), reps(sc)
    space = []
    for prod, rr in (("input", dsr), ("result", dsr), ("scalar", scr)):
        for r1 in rr:
            for r2 in rr:
                persists = itertools.product("Pn", repeat=2 if prod == "input" else 3)
                for pv in persists:
                    n_lines = 2 if prod == "input" else 3
                    for order in itertools.permutations(range(n_lines)):
                        space.append((prod, r1[:2], r2[:2], "".join(pv), order))
    return space


def pairwise_script(desc):
    """The workload of one pairwise descriptor (deterministic)."""
    from .gen import csv_text

    prod, (t1, s1), (t2, s2), pv, order = desc
    rng = random.Random(t1 * 1009 + t2 * 31 + len(prod))
    inputs = ["DS_1", "DS_2", "DS_3"]
    pname = {"input": "DS_3", "result": "P_1", "scalar": "sc_1"}[prod]
    lines, defs_used, edges = [], set(), []

    def reader(name, ti, slot, persistent):
        tpl, shape, kinds = DATASET_TEMPLATES[ti]
        vals = {"k": "1"}
        fill_ds = iter(["DS_1", "DS_2", "DS_1"])
        for sl in kinds:
            if sl == slot:
                vals[sl] = pname
            elif sl in ("s", "t"):
                vals[sl] = str(rng.choice([1, 2, 3, 1.5]))
            else:
                vals[sl] = next(fill_ds)
        expr = tpl.format(**vals)
        for d in DEFS:
            if d in expr:
                defs_used.add(d)
        if "udo_twice" in expr:
            defs_used.add("udo_add")
        edges.append((pname, name, kinds[slot]))
        return "%s %s %s;" % (name, "<-" if persistent else ":=", expr)

    stm = []
    pi = 0
    if prod == "result":
        stm.append("P_1 %s DS_3 * 2;" % ("<-" if pv[0] == "P" else ":="))
        pi = 1
    elif prod == "scalar":
        stm.append("sc_1 %s 3;" % ("<-" if pv[0] == "P" else ":="))
        pi = 1
    stm.append(reader("A_1", t1, s1, pv[pi] == "P"))
    stm.append(reader("B_1", t2, s2, pv[pi + 1] == "P"))
    if "P" not in pv:
        stm[-1] = stm[-1].replace(" := ", " <- ", 1)
    written = [stm[i] for i in order]
    script = "\n".join([DEFS[d] for d in sorted(defs_used)] + written) + "\n"
    structures = {"datasets": [{"name": n, "DataStructure": COMPS} for n in inputs]}
    data = {}
    for i, n in enumerate(inputs):
        rs = _rows(random.Random(i + 7), 4)
        data[n] = {"kind": "df", "columns": COLS, "rows": rs} if i != 1 else {"kind": "csv_text", "text": csv_text(COLS, rs)}
    kinds = [k for (_p, _c, k) in edges]
    meta = {"n_inputs": 3, "n_statements": len(stm), "inputs_used": inputs, "edges": sorted((p, c) for (p, c, _k) in edges),
            "edge_kinds": sorted(set(kinds)),
            "reader_profiles": ["%s:%s" % ({"input": "I", "result": "R", "scalar": "sc"}[prod], ">".join(kinds))],
            "persist": pv, "order": list(order), "shapes": {}, "viral": False, "time_period": False, "nrows": {}, "analytic": " over (" in script,
            "dag": True, "pairwise": True}
    return {"script": script, "structures": structures, "data": data, "meta": meta}


# ---------------------------------------------------------------- many small components

def generate_components(rng):
    """Scripts of 9-14 statements made of several small, mutually disconnected components over a few shared inputs
    (roots of different components read the same input; textual order interleaved): the shape in which the order
    chosen for *independent* statements - and whatever is keyed by statement position - matters."""
    from .gen import csv_text

    n_inputs = rng.choice([2, 3])
    inputs = ["DS_%d" % (i + 1) for i in range(n_inputs)]
    comps_n = rng.choice([3, 4, 5])
    stmts, edges = [], []
    idx = 0
    for c in range(comps_n):
        size = rng.choice([1, 2, 3, 4])
        local = []
        for j in range(size):
            idx += 1
            name = "R_%d" % idx
            a = rng.choice(local) if local and rng.random() < 0.7 else rng.choice(inputs)
            b = rng.choice(local + inputs) if rng.random() < 0.5 else None
            op = rng.choice(["+", "-", "*"])
            expr = ("%s %s %s" % (a, op, b)) if b else rng.choice(["%s * 2", "%s + 1", "%s[filter Me_1 > 1]", "%s[calc Me_1 := Me_1 * 3]"]) % a
            stmts.append({"name": name, "op": "<-" if rng.random() < 0.4 else ":=", "expr": expr, "shape": "S"})
            for x in (a, b):
                if x:
                    edges.append((x, name, "direct"))
            local.append(name)
    if not any(s["op"] == "<-" for s in stmts):
        stmts[-1]["op"] = "<-"
    written = list(stmts)
    rng.shuffle(written)
    script = "\n".join("%s %s %s;" % (s["name"], s["op"], s["expr"]) for s in written) + "\n"
    data = {}
    for i, n in enumerate(inputs):
        rs = _rows(rng, rng.choice([2, 3, 4]))
        data[n] = {"kind": "df", "columns": COLS, "rows": rs}
    meta = {"n_inputs": n_inputs, "n_statements": len(stmts), "inputs_used": inputs, "edges": sorted((p, c) for (p, c, _k) in edges),
            "edge_kinds": ["direct"], "reader_profiles": [], "persist": "".join("P" if s["op"] == "<-" else "n" for s in written),
            "order": [s["name"] for s in written], "shapes": {}, "viral": False, "time_period": False, "nrows": {}, "analytic": False,
            "dag": True, "components": comps_n}
    return {"script": script, "structures": {"datasets": [{"name": n, "DataStructure": COMPS} for n in inputs]}, "data": data, "meta": meta}
