"""In-process fake SDMX web service.

Replaces `pysdmx.io.get_datasets` and `pysdmx.io.read_sdmx` (the engine imports them lazily
inside the functions that use them, so attribute replacement is seen).  Routes are
registered per URL by the scenario; every request is a seam step of family 'net' and can be
failed by the fault plan (timeout, connection reset) or answer with a scripted misbehaviour
(empty message, HTTP error, wrong structure type)."""
from .seams import SIM

ROUTES = {}     # url -> {"kind": "data"|"structure", "name": str, "components": [vtl comps], "rows": [...], "behaviour": "ok"|...}
_installed = False
_real = {}
TYPE_MAP = {"Integer": "INTEGER", "Number": "DOUBLE", "String": "STRING", "Boolean": "BOOLEAN", "Date": "DATE",
            "Time_Period": "PERIOD", "Time": "TIME", "Duration": "DURATION"}


def _components(vtl_comps):
    from pysdmx.model import Component, Components, Concept, DataType, Role

    out = []
    for c in vtl_comps:
        role = {"Identifier": Role.DIMENSION, "Measure": Role.MEASURE}.get(c["role"], Role.ATTRIBUTE)
        kw = {}
        if role == Role.ATTRIBUTE:
            kw["attachment_level"] = "O"
        out.append(Component(id=c["name"], required=not c.get("nullable", True), role=role, concept=Concept(id=c["name"]),
                             local_dtype=getattr(DataType, TYPE_MAP.get(c["type"], "STRING")), **kw))
    return Components(out)


def schema_for(name, vtl_comps, agency="MD", version="1.0"):
    from pysdmx.model.dataflow import Schema

    return Schema(context="datastructure", agency=agency, id=name, components=_components(vtl_comps), version=version)


def dsd_for(name, vtl_comps, agency="MD", version="1.0"):
    from pysdmx.model.dataflow import DataStructureDefinition

    return DataStructureDefinition(id=name, agency=agency, version=version, components=_components(vtl_comps))


def pandas_dataset(name, vtl_comps, columns, rows):
    import pandas as pd
    from pysdmx.io.pd import PandasDataset

    df = pd.DataFrame({c: [r[i] for r in rows] for i, c in enumerate(columns)}, columns=columns)
    return PandasDataset(structure=schema_for(name, vtl_comps), data=df)


class _Msg:
    def __init__(self, structures):
        self.structures = structures


def _route(url, want):
    r = ROUTES.get(str(url))
    tok = SIM.step("net_" + want, str(url), family="net")
    if r is None:
        raise ConnectionError("fake peer: no route for %s" % url)
    b = r.get("behaviour", "ok")
    if b == "http_error":
        raise RuntimeError("HTTP 503 Service Unavailable (fake peer)")
    SIM.after(tok)
    return r, b


def fake_get_datasets(data=None, structure=None, *a, **k):
    if str(data) not in ROUTES and "get_datasets" in _real:
        return _real["get_datasets"](data, structure, *a, **k)
    r, b = _route(data, "get")
    if b == "empty":
        return []
    ds = pandas_dataset(r["name"], r["components"], r["columns"], r["rows"])
    if b == "wrong_type":
        ds.structure = "DataStructure=MD:%s(1.0)" % r["name"]
    return [ds]


def fake_read_sdmx(source, *a, **k):
    if str(source) not in ROUTES and "read_sdmx" in _real:
        return _real["read_sdmx"](source, *a, **k)
    r, b = _route(source, "read")
    if b == "empty":
        return _Msg([])
    if b == "wrong_type":
        return _Msg([schema_for(r["name"], r["components"])])
    return _Msg([dsd_for(n, c) for n, c in r["structures"]])


def install():
    global _installed
    import pysdmx.io

    if not _installed:
        _real["get_datasets"] = pysdmx.io.get_datasets
        _real["read_sdmx"] = pysdmx.io.read_sdmx
        pysdmx.io.get_datasets = fake_get_datasets
        pysdmx.io.read_sdmx = fake_read_sdmx
        _installed = True


def set_routes(routes):
    ROUTES.clear()
    ROUTES.update(routes)
