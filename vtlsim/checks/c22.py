"""C22 (in part) — public API calls never modify the caller's arguments.

The technique's contribution: calls are made to fail at arbitrary internal points by
injected faults (connection seam, engine file I/O, network peer), and the URL-datapoint
paths are driven by an in-process fake SDMX service.  Invariant after every operation
(successful, naturally failed or fault-failed): deep snapshots of every argument taken
before the call equal the objects after it."""
import copy
import json
import random

from .. import fakepeer, gen, ops, proc
from ..models import snapshot
from ..seams import SIM

BUDGET = {"quick": 120.0, "thorough": 3300.0}
CONN_KINDS = ["io_nospace", "oom", "interrupt", "conn_closed", "memerr", "kbdint"]
FILE_KINDS = ["os_enospc", "os_eio", "os_eacces", "memerr", "kbdint"]
NET_KINDS = ["net_timeout", "net_reset", "memerr", "kbdint"]
VD = {"name": "VD_1", "setlist": ["A", "B", "Z"], "type": "String"}
ROUTINE = {"name": "SQL_1", "query": "SELECT Id_1, Me_1 FROM DS_1;"}


def make_spec(rng):
    """A JSON-able description of one API call (the python objects are built in the child)."""
    api = rng.choice(["run", "run", "run", "run_url", "run_sdmx", "semantic_analysis", "validate_dataset", "generate_sdmx", "prettify"])
    sdmxish = api in ("run_url", "run_sdmx")
    w = gen.generate(random.Random(rng.randrange(1 << 30)), n_statements=rng.choice([1, 2, 3]), rows=rng.choice([0, 1, 3, 5]),
                     carriers=("df",) if sdmxish else ("df", "df", "csv_text", "parquet_df"),
                     time_period=False if sdmxish else None, viral=False if sdmxish else None)
    spec = {"api": api, "script": w["script"], "structures": w["structures"], "data": w["data"], "kwargs": {}, "env": {},
            "output_folder": api == "run" and rng.random() < 0.25, "shape": {}}
    sh = spec["shape"]
    sh["structures_as"] = rng.choice(["dict", "dict", "list", "path"])
    sh["dirty"] = rng.sample(["shuffle_cols", "extra_col", "missing_measure", "bom", "str_numbers", "categorical", "dup_ids",
                              "int_as_float", "index_named", "attrs", "nulls_in_ids", "empty_strings", "padded_numbers", "mixed_none_nan", "id_as_text"],
                             rng.choice([0, 0, 1, 1, 2, 3]))
    # spellings of the structure document that the JSON schema accepts besides the canonical one
    sh["structure_dialect"] = rng.sample(["legacy_type_key", "legacy_viral_role", "referenced_structures", "descriptions"], rng.choice([0, 0, 1, 1, 2, 3]))
    if rng.random() < 0.3:
        # natively typed, textual (as a CLI / JSON config would give them), and mixed
        spec["kwargs"]["scalar_values"] = rng.choice([{"sc_x": 3, "sc_y": None}, {"sc_x": "3", "sc_y": "2.5"}, {"sc_x": 3.0, "sc_y": "7"},
                                                      {"sc_y": 1.5, "sc_x": "12"}, {"sc_x": True, "sc_y": "abc"}])
    if rng.random() < 0.25:
        spec["kwargs"]["value_domains"] = copy.deepcopy(VD) if rng.random() < 0.6 else [copy.deepcopy(VD)]
        spec["script"] += 'VD_r <- DS_1[calc B_1 := Id_2 in VD_1];\n' if any(c["name"] == "Id_2" for c in w["structures"]["datasets"][0]["DataStructure"]) else ""
    if rng.random() < 0.15:
        spec["kwargs"]["external_routines"] = copy.deepcopy(ROUTINE) if rng.random() < 0.5 else [copy.deepcopy(ROUTINE), {"name": "SQL_2", "query": "SELECT Id_1 FROM DS_1;"}]
    if rng.random() < 0.2:
        spec["kwargs"]["return_only_persistent"] = False
    if rng.random() < 0.15:
        spec["kwargs"]["time_period_output_format"] = rng.choice(["vtl", "natural", "martian"])
    if rng.random() < 0.15:
        spec["script"] = rng.choice([spec["script"] + "X_1 <- DS_1 +;\n", "X_1 <- DS_404 + 1;\n" + spec["script"], spec["script"] + "X_2 <- DS_1 / 0;\n"])
    sh["none_datapoint"] = (not sdmxish) and len(w["data"]) > 1 and rng.random() < 0.12
    if api == "run_url":
        sh["peer"] = {n: rng.choice(["ok", "ok", "ok", "empty", "http_error", "wrong_type"]) for n in w["data"]}
        sh["url_part"] = rng.choice(["all", "some"])
        sh["structure_url"] = rng.random() < 0.7
    return spec


def _dirty(df, kinds, comps, rng):
    import pandas as pd

    for k in kinds:
        if k == "shuffle_cols" and len(df.columns) > 1:
            cols = list(df.columns)
            rng.shuffle(cols)
            df = df[cols]
        elif k == "extra_col":
            df = df.assign(EXTRA_9=["x"] * len(df))
        elif k == "missing_measure" and "Me_1" in df.columns:
            df = df.drop(columns=["Me_1"])
        elif k == "bom":
            df = df.rename(columns={df.columns[0]: "﻿" + str(df.columns[0])})
        elif k == "str_numbers" and "Me_1" in df.columns:
            df = df.assign(Me_1=[None if pd.isna(v) else str(v) for v in df["Me_1"]])
        elif k == "categorical":
            c = [c for c in df.columns if df[c].dtype == object]
            if c:
                df = df.assign(**{c[0]: df[c[0]].astype("category")})
        elif k == "dup_ids" and len(df) > 0:
            df = pd.concat([df, df.iloc[[0]]])
        elif k == "int_as_float" and "Id_1" in df.columns:
            df = df.assign(Id_1=df["Id_1"].astype(float))
        elif k == "index_named" and len(df) > 0:
            df = df.copy()
            df.index = pd.Index(range(10, 10 + len(df)), name="my_index")
        elif k == "attrs":
            df = df.copy()
            df.attrs["origin"] = {"who": "caller"}
        elif k == "empty_strings" and "Me_1" in df.columns:
            # numbers given as text, nulls given as "" (what a CSV read with dtype=str and keep_default_na=False yields)
            df = df.assign(Me_1=pd.Series(["" if pd.isna(v) else str(v) for v in df["Me_1"]], index=df.index, dtype=object))
            if len(df) > 0:
                df.iloc[0, df.columns.get_loc("Me_1")] = ""
        elif k == "padded_numbers" and "Me_1" in df.columns:
            df = df.assign(Me_1=pd.Series([None if pd.isna(v) else " %s " % v for v in df["Me_1"]], index=df.index, dtype=object))
        elif k == "mixed_none_nan" and "Me_1" in df.columns and len(df) > 1:
            vals = [v if not pd.isna(v) else (None if i % 2 else float("nan")) for i, v in enumerate(df["Me_1"])]
            vals[0] = None
            vals[-1] = float("nan")
            df = df.assign(Me_1=pd.Series(vals, index=df.index, dtype=object))
        elif k == "id_as_text" and "Id_1" in df.columns:
            df = df.assign(Id_1=pd.Series([str(v) for v in df["Id_1"]], index=df.index, dtype=object))
        elif k == "nulls_in_ids" and "Id_2" in df.columns and len(df) > 0:
            df = df.copy()
            df.loc[df.index[0], "Id_2"] = None
    return df


def _dialect(st, kinds):
    """Rewrite a canonical structure document into other spellings the schema accepts."""
    st = copy.deepcopy(st)
    comps_lists = [d["DataStructure"] for d in st.get("datasets", [])]
    if "legacy_type_key" in kinds:
        for cl in comps_lists:
            for c in cl:
                if "type" in c:
                    c["data_type"] = c.pop("type")
        for sc in st.get("scalars", []):
            if "type" in sc:
                sc["data_type"] = sc.pop("type")
    if "legacy_viral_role" in kinds:
        for cl in comps_lists:
            for c in cl:
                if c.get("role") == "Viral Attribute":
                    c["role"] = "ViralAttribute"
    if "descriptions" in kinds:
        for d in st.get("datasets", []):
            d["description"] = "dataset " + d["name"]
            d["source"] = "generated"
            for c in d["DataStructure"]:
                c["description"] = "component " + c["name"]
    if "referenced_structures" in kinds:
        st["structures"] = []
        for d in st.get("datasets", []):
            st["structures"].append({"name": "STR_" + d["name"], "components": d.pop("DataStructure")})
            d["structure"] = "STR_" + d["name"]
    return st


def build_call(spec, sb, n):
    """Build the python-level call: (callable name, kwargs).  Everything in kwargs is a
    caller-side object whose conservation is checked."""
    import os
    from pathlib import Path

    import pandas as pd

    rng = random.Random(len(spec["script"]) * 7919 + 13)   # depends on the spec only (replay uses another n)
    api = spec["api"]
    base = {"api": "run", "script": spec["script"], "structures": spec["structures"], "data": spec["data"],
            "kwargs": spec["kwargs"], "env": {}, "output_folder": spec["output_folder"]}
    kw = ops.materialise(base, sb, n)
    sh = spec["shape"]
    comps = {d["name"]: d["DataStructure"] for d in spec["structures"]["datasets"]}
    # dirty DataFrames (the engine may add/rename/cast columns on its own copies only)
    for name, v in list(kw.get("datapoints", {}).items()):
        if isinstance(v, pd.DataFrame) and sh["dirty"]:
            kw["datapoints"][name] = _dirty(v, sh["dirty"], comps.get(name), rng)
    if sh.get("none_datapoint") and kw.get("datapoints"):
        kw["datapoints"][sorted(kw["datapoints"])[-1]] = None      # structure only, no data for this dataset
    if "scalar_values" in kw:
        kw["data_structures"] = dict(kw["data_structures"], scalars=[{"name": "sc_x", "type": "Integer"}, {"name": "sc_y", "type": "Number"}])
    kw["data_structures"] = _dialect(kw["data_structures"], sh.get("structure_dialect") or [])
    if sh["structures_as"] == "list":
        st = kw["data_structures"]
        by_name = {x["name"]: x for x in st.get("structures", [])}
        kw["data_structures"] = [dict({"datasets": [d]}, **({"structures": [by_name[d["structure"]]]} if "structure" in d else {}))
                                 for d in st["datasets"]] + ([{"scalars": st["scalars"]}] if "scalars" in st else [])
    elif sh["structures_as"] == "path":
        p = os.path.join(sb.inp, "st_%d.json" % n)
        with open(p, "w") as f:
            json.dump(kw["data_structures"], f)
        kw["data_structures"] = Path(p)
    if api == "run":
        return "run", kw
    if api == "semantic_analysis":
        return "semantic_analysis", {k: v for k, v in kw.items() if k in ("script", "data_structures", "value_domains", "external_routines")}
    if api == "validate_dataset":
        return "validate_dataset", {k: v for k, v in kw.items() if k in ("data_structures", "datapoints", "scalar_values")}
    if api == "prettify":
        return "prettify", {"script": kw["script"]}
    if api == "generate_sdmx":
        return "generate_sdmx", {"script": kw["script"], "agency_id": "MD", "id": "TS_1"}
    if api == "run_sdmx":
        dss = []
        mappings = {}
        for name, v in kw["datapoints"].items():
            sch = fakepeer.schema_for(name, comps[name])
            from pysdmx.io.pd import PandasDataset

            dss.append(PandasDataset(structure=sch, data=v))
            mappings[sch.short_urn] = name
        out = {"script": kw["script"], "datasets": dss, "mappings": mappings}
        for k in ("value_domains", "external_routines", "return_only_persistent", "time_period_output_format"):
            if k in kw:
                out[k] = kw[k]
        return "run_sdmx", out
    if api == "run_url":
        routes = {}
        names = sorted(kw["datapoints"])
        use = names if sh["url_part"] == "all" else names[: max(1, len(names) // 2)]
        for name in use:
            url = "https://fake.peer.example/data/%s" % name
            df = kw["datapoints"][name]
            routes[url] = {"kind": "data", "name": name, "components": comps[name], "columns": [str(c) for c in df.columns],
                           "rows": df.astype(object).where(df.notna(), None).values.tolist(), "behaviour": sh["peer"].get(name, "ok")}
            kw["datapoints"][name] = url
        surl = "https://fake.peer.example/structure/all"
        routes[surl] = {"kind": "structure", "name": names[0], "components": comps[names[0]],
                        "structures": [(n2, comps[n2]) for n2 in names], "behaviour": "ok"}
        if sh["structure_url"]:
            kw["data_structures"] = surl
        else:
            p = os.path.join(sb.inp, "st_url_%d.json" % n)
            with open(p, "w") as f:
                json.dump(spec["structures"], f)
            kw["data_structures"] = Path(p)
        kw["sdmx_mappings"] = {"DataStructure=MD:%s(1.0)" % n2: n2 for n2 in names}
        fakepeer.set_routes(routes)
        return "run", kw
    raise ValueError(api)


def _call(fn, kw):
    import vtlengine

    try:
        getattr(vtlengine, fn)(**kw)
        return ("ok",)
    except BaseException as e:  # noqa: BLE001
        out = ops.norm_exc(e)
        del e
        return out


def _child(specs, seed):
    fakepeer.install()
    sb = ops.Sandbox("c22")
    out = []
    try:
        for n, spec in enumerate(specs):
            rng = random.Random(seed * 1000 + n)
            # 1. fault-free
            ops.set_env({"env": {}}, sb)
            try:
                fn, kw = build_call(spec, sb, n)
            except Exception as e:  # noqa: BLE001
                # the *caller-side* objects of this spec cannot be built (e.g. pysdmx refuses to wrap a dirty
                # DataFrame in a PandasDataset): there is no call to judge
                out.append({"api": spec["api"], "fn": None, "K": 0, "outcome": ("unbuildable", type(e).__name__), "fault_free_diff": None,
                            "faulted": [], "peer": None})
                continue
            before = snapshot.snap(kw)
            SIM.reset(seed=n)
            SIM.begin_op(0)
            oc = _call(fn, kw)
            K = SIM.k
            kinds_of = {e[3]: e[4] for e in SIM.events}
            d = snapshot.diff(before, snapshot.snap(kw))
            rec = {"api": spec["api"], "fn": fn, "K": K, "outcome": oc[:3] if oc[0] == "exc" else oc, "fault_free_diff": d,
                   "faulted": [], "peer": spec["shape"].get("peer")}
            # 2. the same call failed at seeded internal points
            ks = sorted(set(rng.randrange(1, K + 1) for _ in range(min(K, 4)))) if K else []
            for k in ks:
                seam = kinds_of.get(k, "execute")
                fam = NET_KINDS if seam.startswith("net_") else (FILE_KINDS if seam in ("open", "file_write", "mkdir") else CONN_KINDS)
                kind = rng.choice(fam)
                when = rng.choice(["instead", "after"]) if seam != "mkdir" else "instead"
                fn2, kw2 = build_call(spec, sb, n)
                b2 = snapshot.snap(kw2)
                SIM.reset(seed=n, faults=[{"op": 0, "k": k, "kind": kind, "when": when}])
                SIM.begin_op(0)
                oc2 = _call(fn2, kw2)
                d2 = snapshot.diff(b2, snapshot.snap(kw2))
                rec["faulted"].append({"k": k, "kind": kind, "when": when, "seam": seam, "fired": len(SIM.fired), "status": oc2[0], "diff": d2})
            out.append(rec)
        return out
    finally:
        sb.cleanup()


def _preparse(specs):
    from ..parser_standin import shim

    t = []
    for s in specs:
        t += [s["script"], s["script"] + "\n"]
    shim.preparse(t)


def task_batch(task):
    specs = [make_spec(random.Random(s)) for s in task["seeds"]]
    _preparse(specs)
    res = proc.in_child(_child, specs, task["seeds"][0], timeout=120 + 40 * len(specs))
    out = []
    for sd, spec, r in zip(task["seeds"], specs, res):
        viols = []
        if r["fault_free_diff"]:
            viols.append({"invariant": "argument-modified", "observed": "%s (%s, fault-free, outcome %s): %s" % (r["fn"], spec["api"], r["outcome"][0], r["fault_free_diff"]),
                          "signature": {"api": spec["api"], "faulted": False}, "fault": None})
        for f in r["faulted"]:
            if f["diff"] and f["fired"]:
                viols.append({"invariant": "argument-modified", "observed": "%s (%s, failed at seam call %d/%s by %s %s): %s" % (r["fn"], spec["api"], f["k"], f["seam"], f["kind"], f["when"], f["diff"]),
                              "signature": {"api": spec["api"], "faulted": True}, "fault": {"k": f["k"], "kind": f["kind"], "when": f["when"]}})
        out.append({"seed": sd, "api": spec["api"], "K": r["K"], "status": r["outcome"][0], "n_faulted": sum(1 for f in r["faulted"] if f["fired"]),
                    "fault_kinds": [f["kind"] for f in r["faulted"] if f["fired"]], "seams": [f["seam"] for f in r["faulted"] if f["fired"]],
                    "peer": r["peer"], "viols": viols, "spec": spec if viols else None,
                    "sample": {"api": spec["api"], "shape": spec["shape"], "script": spec["script"][:150]}})
    return out


def run(ctx):
    rng = random.Random(ctx.seed * 1000003 + 22)
    quick = ctx.tier == "quick"
    n = 2500 if quick else 150000
    seeds = [rng.randrange(1 << 30) for _ in range(n)]
    size = 10
    done = ctx.map("task_batch", [{"seeds": seeds[i:i + size]} for i in range(0, n, size)], min_tasks=32)
    violations, samples = [], []
    n_ff = n_faulted = n_peer = 0
    by_api, fired, seams_hit, status = {}, {}, {}, {}
    nontrivial = set()
    for _t, res in done:
        for r in res:
            if r["status"] == "unbuildable":
                status["unbuildable"] = status.get("unbuildable", 0) + 1
                continue
            n_ff += 1
            n_faulted += r["n_faulted"]
            by_api[r["api"]] = by_api.get(r["api"], 0) + 1
            status[r["status"]] = status.get(r["status"], 0) + 1
            if r["peer"]:
                n_peer += 1
            for k in r["fault_kinds"]:
                fired[k] = fired.get(k, 0) + 1
            for s in r["seams"]:
                seams_hit[s] = seams_hit.get(s, 0) + 1
            for i in range(r["n_faulted"]):
                nontrivial.add((r["seed"], i))
            if r["peer"]:
                nontrivial.add((r["seed"], "peer"))
            if len(samples) < 3:
                samples.append(r["sample"])
            for v in r["viols"]:
                violations.append({"invariant": v["invariant"], "signature": dict(v["signature"], invariant=v["invariant"]), "observed": v["observed"],
                                   "scenario": {"spec": r["spec"], "seed": r["seed"], "fault": v["fault"]}, "digest": ""})
    coverage = {
        "evaluations": n_ff + n_faulted,
        "distinct_nontrivial": len(nontrivial),
        "rule": "one evaluation = one public API call whose arguments are deep-snapshotted before and compared after. distinct_nontrivial counts only the operations whose failure point "
                "was chosen by the simulator (an injected fault that actually fired at a seeded seam call) or whose inputs came through the fake SDMX peer; fault-free snapshot runs are "
                "reported separately as evaluations_fault_free and carry no simulation content.",
        "samples": samples or [{"note": "none"}],
        "evaluations_fault_free": n_ff, "evaluations_failed_by_injected_fault": n_faulted, "evaluations_with_fake_peer": n_peer,
        "calls_by_api": by_api, "fault_free_status": status, "fault_kinds_fired": fired, "fault_seams_hit": seams_hit,
        "tasks_skipped_by_budget": getattr(ctx, "last_skipped", 0),
    }
    return {"level": "exploration", "coverage": coverage, "violations": violations,
            "assumptions": [
                "claimed in part: the fault-free half is plain snapshot testing of generated calls; the simulation content is the failure point (fault injection) and the peer behaviour (fake SDMX service)",
                "SDMX-ML inputs need the pysdmx[xml] extra, absent from the image; SDMX paths are exercised through pysdmx objects and the fake peer only",
            ]}


def replay(rec):
    sc = rec["scenario"]
    spec = sc["spec"]
    _preparse([spec])

    def child():
        fakepeer.install()
        sb = ops.Sandbox("c22r")
        try:
            ops.set_env({"env": {}}, sb)
            fn, kw = build_call(spec, sb, 0)
            before = snapshot.snap(kw)
            f = sc.get("fault")
            SIM.reset(seed=0, faults=[dict(f, op=0)] if f else None)
            SIM.begin_op(0)
            _call(fn, kw)
            return snapshot.diff(before, snapshot.snap(kw))
        finally:
            sb.cleanup()

    d = proc.in_child(child, timeout=300)
    return [{"invariant": "argument-modified", "observed": d, "digest": ""}] if d else []
