"""C13 — load/release schedule is safe, results are selected correctly.

Real run() on valid multi-statement scripts; the history recorded at the connection seam is
refined against the abstract table-store model (models/tablestore.py); result selection is
checked against the script's own assignment operators, against the same script with
return_only_persistent=False, and against an unscheduled shadow execution in which nothing
is ever released or rewritten in place."""
import random

from .. import corpus, gen, gen_dag, minimise, ops, proc
from ..models import tablestore
from ..seams import SIM

BUDGET = {"quick": 120.0, "thorough": 3300.0}
TIME_TYPES = ("TimePeriod", "Date", "TimeInterval", "Duration")


def _assignments(script):
    """(name, persistent) for every top-level assignment, from the AST (not the DAG analyzer)."""
    from vtlengine import API
    from vtlengine.AST import Assignment, PersistentAssignment

    ast = API.create_ast(script)
    out = []
    for ch in ast.children:
        if isinstance(ch, PersistentAssignment):
            out.append((ch.left.value, True))
        elif isinstance(ch, Assignment):
            out.append((ch.left.value, False))
    return out


def _judge_one(op, sb, idx):
    """Run one operation under both return_only_persistent values; returns (records, stats)."""
    recs = []
    stats = {"valid": 0, "shape": None, "nontrivial": False, "shadow_compared": 0, "shadow_skipped": 0, "statements": 0}
    outcomes = {}
    hist = {}
    shadows = {}
    for rop in (True, False):
        o = dict(op)
        o["kwargs"] = dict(op.get("kwargs") or {}, return_only_persistent=rop)
        SIM.reset(seed=idx)
        SIM.shadow = True
        SIM.begin_op(0)
        outcomes[rop] = ops.execute_op(o, sb, idx * 2 + int(rop))
        hist[rop] = [h for h in SIM.histories if any(e[0] == "EXEC" or e[0] == "CREATE" for e in h)]
        shadows[rop] = dict(SIM.shadow_tables)
    if outcomes[True][0] != "ok" or outcomes[False][0] != "ok":
        # not a valid script for both settings (fetching more results may legitimately fail,
        # e.g. a non-persistent result that cannot be rendered in the requested period format).
        # The safety rules still apply to whatever was executed before the failure: a schedule
        # defect shows up as a statement reading an unmaterialised table, and must not be
        # mistaken for an invalid script.
        for rop in (True, False):
            for h in hist[rop]:
                viols, _st = tablestore.check_history(h, completed=False)
                for (rule, table, detail) in viols:
                    recs.append((rule, "run failed (%s); return_only_persistent=%s table=%s %s" % (
                        ops._brief(outcomes[rop]) if outcomes[rop][0] == "exc" else "ok", rop, table, detail)))
        return recs, stats
    stats["valid"] = 1
    try:
        assigns = _assignments(op["script"])
    except Exception as e:  # noqa: BLE001
        return [("harness", "cannot rebuild AST: %r" % (e,))], stats
    names_all = [n for n, _p in assigns]
    names_p = [n for n, p in assigns if p]
    stats["statements"] = len(assigns)
    # ---- model over the recorded histories
    for rop in (True, False):
        if len(hist[rop]) != 1:
            if assigns:
                recs.append(("history-shape", "expected one run connection with table events, got %d" % len(hist[rop])))
            continue
        viols, st = tablestore.check_history(hist[rop][0])
        for (rule, table, detail) in viols:
            recs.append((rule, "return_only_persistent=%s table=%s %s" % (rop, table, detail)))
        if st["statements"] != len(assigns):
            recs.append(("statement-count", "script has %d assignments, %d statements were executed" % (len(assigns), st["statements"])))
        if rop and st["statements"] >= 2 and st["releases_before_last_statement"] >= 1:
            stats["nontrivial"] = True
    # ---- result selection
    keys_p = sorted(outcomes[True][1])
    keys_all = sorted(outcomes[False][1])
    if keys_p != sorted(names_p):
        recs.append(("result-keys", "return_only_persistent=True returned %s, persistent assignments are %s" % (keys_p, sorted(names_p))))
    if keys_all != sorted(names_all):
        recs.append(("result-keys", "return_only_persistent=False returned %s, assignments are %s" % (keys_all, sorted(names_all))))
    for k in keys_p:
        if k in outcomes[False][1] and not ops.same_value(outcomes[True][1][k], outcomes[False][1][k]):
            recs.append(("value-depends-on-return_only_persistent", "%s: %s vs %s" % (
                k, ops._brief_val(outcomes[True][1][k]), ops._brief_val(outcomes[False][1][k]))))
    # ---- unscheduled shadow execution
    for rop in (True, False):
        for k, val in outcomes[rop][1].items():
            sh = shadows[rop].get(k)
            if sh is None:
                recs.append(("shadow-missing", "no shadow table for returned result %s" % k))
                continue
            if sh[0] == "ERROR":
                recs.append(("shadow-error", "%s: %s" % (k, sh[1])))
                continue
            if val[0] == "ds":
                if val[3] is None or any(c[1] in TIME_TYPES for c in val[1]):
                    stats["shadow_skipped"] += 1
                    continue
                cols = list(val[2])
                scols = list(sh[0])
                if not set(cols) <= set(scols):  # the fetch projects onto the declared components
                    recs.append(("shadow-columns", "%s: returned %s, unscheduled execution has %s" % (k, cols, scols)))
                    continue
                idx_map = [scols.index(c) for c in cols]
                srows = [tuple(r[i] for i in idx_map) for r in sh[2]]
                a = sorted(val[3], key=ops._sort_key)
                b = sorted(srows, key=ops._sort_key)
                stats["shadow_compared"] += 1
                if not ops.same_rows(a, b, 1e-9):
                    recs.append(("value-differs-from-unscheduled-execution", "%s: returned %s, unscheduled %s" % (k, str(a)[:300], str(b)[:300])))
            elif val[0] == "sc":
                if val[1] in TIME_TYPES or not sh[2] or len(sh[2]) != 1:
                    stats["shadow_skipped"] += 1
                    continue
                stats["shadow_compared"] += 1
                sv = sh[2][0][0]
                if isinstance(sv, float) and isinstance(val[2], (int, float)):
                    ok = abs(sv - val[2]) <= 1e-6 * max(1.0, abs(sv))
                else:
                    ok = sv == val[2] or str(sv) == str(val[2])
                if not ok:
                    recs.append(("value-differs-from-unscheduled-execution", "scalar %s: returned %r, unscheduled %r" % (k, val[2], sv)))
    return recs, stats


def _batch_child(ops_list, base):
    sb = ops.Sandbox("c13")
    try:
        out = []
        for i, op in enumerate(ops_list):
            recs, stats = _judge_one(op, sb, base + i)
            out.append((recs, stats))
        return out
    finally:
        sb.cleanup()


def task_batch(task):
    from ..parser_standin import shim

    ops_list = []
    for src in task["items"]:
        if src[0] == "gen":
            rng = random.Random(src[1])
            w = gen.generate(rng, n_statements=rng.choice([2, 3, 4, 5, 6, 7, 8, 9, 10, 12]), rows=rng.choice([0, 2, 3, 5]),
                             time_period=None)
            kw = {}
            if w["meta"]["time_period"]:
                kw["time_period_output_format"] = rng.choice(["vtl", "sdmx_reporting", "sdmx_gregorian", "natural"])
            o = gen.as_op(w, kwargs=kw, output_folder=rng.random() < 0.15)
            o["sid"] = "gen:%d" % src[1]
        elif src[0] == "pair":
            w = gen_dag.pairwise_script(gen_dag.pairwise_space()[src[1]])
            o = gen.as_op(w)
            o["sid"] = "pair:%d" % src[1]
        elif src[0] == "comp":
            w = gen_dag.generate_components(random.Random(src[1]))
            o = gen.as_op(w)
            o["sid"] = "comp:%d" % src[1]
        elif src[0] == "dag":
            rng = random.Random(src[1])
            w = gen_dag.generate(rng)
            o = gen.as_op(w, output_folder=rng.random() < 0.1)
            o["sid"] = "dag:%d" % src[1]
        else:
            o = corpus.as_op(src[1])
            o["sid"] = "corpus:" + src[1]["id"]
        ops_list.append(o)
    shim.preparse([o["script"] + "\n" for o in ops_list] + [o["script"] for o in ops_list])
    res = proc.in_child(_batch_child, ops_list, task["base"], timeout=60 + 30 * len(ops_list))
    out = []
    for o, (recs, stats) in zip(ops_list, res):
        meta = o.get("meta")
        shape = repr(gen.graph_shape_key(meta)) if meta else o["sid"]
        out.append({"sid": o["sid"], "recs": recs, "stats": stats, "shape": shape,
                    "edge_kinds": (meta or {}).get("edge_kinds") if stats["valid"] else None,
                    "reader_profiles": (meta or {}).get("reader_profiles") if stats["valid"] else None,
                    "op": o if recs else None,
                    "sample": {"sid": o["sid"], "script": o["script"][:500]} if stats["nontrivial"] else None})
    return out


def task_minimise(task):
    """Delta-debug the operation (statements, knobs, rows) while the same model rule keeps failing."""
    from ..parser_standin import shim

    op, inv = task["op"], task["invariant"]

    def still_fails(o):
        shim.preparse([o["script"] + "\n", o["script"]])
        recs, _st = proc.in_child(_batch_child, [o], 0, timeout=300)[0]
        return any(r[0] == inv for r in recs)

    if op.get("corpus_id"):
        return {"op": op}
    return {"op": minimise.shrink_op(op, still_fails, max_tests=60)}


def run(ctx):
    rng = random.Random(ctx.seed * 1000003 + 13)
    quick = ctx.tier == "quick"
    n_gen = 1500 if quick else 60000
    cps = [e for e in corpus.discover() if e["bytes"] < (30000 if quick else 400000)]
    n_corpus = 250 if quick else len(cps)
    items = [("gen", rng.randrange(1 << 30)) for _ in range(n_gen // 2)]
    items += [("dag", rng.randrange(1 << 30)) for _ in range(n_gen - n_gen // 2)]
    n_space = len(gen_dag.pairwise_space())
    pair_idx = rng.sample(range(n_space), min(n_space, 240 if quick else 12000))
    items += [("pair", i) for i in pair_idx]
    comp_items = [("comp", rng.randrange(1 << 30)) for _ in range(300 if quick else 6000)]   # many small disconnected components, 9-14 statements
    items += [("corpus", e) for e in rng.sample(cps, min(n_corpus, len(cps)))]
    rng.shuffle(items)
    # a family with its own share of the budget runs first instead of being diluted in the shuffle
    items = comp_items[: (264 if quick else len(comp_items))] + items + comp_items[(264 if quick else len(comp_items)):]
    size = 12
    tasks = [{"items": items[i:i + size], "base": i} for i in range(0, len(items), size)]
    done = ctx.map("task_batch", tasks, min_tasks=24)
    violations, shapes, samples = [], set(), []
    n_eval = n_valid = n_shadow = n_skip = n_stmts = 0
    edge_kinds, profiles = {}, set()
    for _t, res in done:
        for r in res:
            n_eval += 1
            for k in r.get("edge_kinds") or []:
                edge_kinds[k] = edge_kinds.get(k, 0) + 1
            profiles.update(r.get("reader_profiles") or [])
            n_valid += r["stats"]["valid"]
            n_shadow += r["stats"]["shadow_compared"]
            n_skip += r["stats"]["shadow_skipped"]
            n_stmts += r["stats"]["statements"]
            if r["stats"]["nontrivial"]:
                shapes.add(r["shape"])
                if r["sample"] and len(samples) < 4:
                    samples.append(r["sample"])
            for (rule, detail) in r["recs"]:
                if rule == "harness":
                    ctx.harness_errors.append({"task": r["sid"], "error": detail})
                    continue
                violations.append({"invariant": rule, "signature": {"invariant": rule}, "observed": detail,
                                   "scenario": {"sid": r["sid"], "op": r["op"]}, "digest": ""})
    # one representative per rule, minimised
    seen, reps = set(), []
    for v in violations:
        if v["invariant"] not in seen:
            seen.add(v["invariant"])
            reps.append(v)
    if reps:
        mins = ctx.map("task_minimise", [{"op": v["scenario"]["op"], "invariant": v["invariant"], "idx": i} for i, v in enumerate(reps[:4])],
                       budget_s=150.0, force=True)
        for (t, r) in mins:
            reps[t["idx"]]["scenario"]["op"] = r["op"]
    violations = reps
    coverage = {
        "evaluations": n_eval * 2,
        "distinct_nontrivial": len(shapes),
        "rule": "one evaluation = one real run() of a script (each script is run with return_only_persistent True and False) whose connection history "
                "is replayed against the table-store model and whose results are compared with an unscheduled shadow execution. "
                "distinct_nontrivial = distinct (dependency-graph shape, persistence vector, textual order) of valid scripts with >= 2 statements "
                "and >= 1 release before the last statement (corpus scripts count by id).",
        "samples": samples or [{"note": "no nontrivial sample in this run"}],
        "scripts": n_eval, "valid_scripts": n_valid, "statements_executed": n_stmts * 2,
        "results_compared_with_unscheduled_execution": n_shadow,
        "valid_scripts_by_reference_position_kind": edge_kinds,
        "distinct_reader_profiles": len(profiles),
        "pairwise_reader_position_space": {"size": n_space, "sampled_this_run": len(pair_idx),
                                           "rule": "producer kind {input, result, scalar} x position of reader 1 x position of reader 2 (2 representatives per position kind) x persistence of the statements x textual order"},
        "reader_profile_rule": "per producer (input I, result R, scalar sc) the sequence of syntactic positions of its readers in creation order, e.g. 'sc:clause>direct-scalar'",
        "results_not_compared_time_typed": n_skip,
        "tasks_skipped_by_budget": getattr(ctx, "last_skipped", 0),
        "fault_kinds_fired": {},
    }
    return {"level": "exploration", "coverage": coverage, "violations": violations,
            "assumptions": [
                "parser is a stand-in; everything else is real code",
                "the base tables a statement reads are taken from DuckDB's own SQL parser (json_serialize_sql) at the connection seam, not from the DAG analyzer",
                "shadow comparison skips results with Time_Period/Date/Duration/Time_Interval components (their returned form is re-rendered)",
            ]}


def replay(rec):
    op = rec["scenario"]["op"]
    from ..parser_standin import shim

    shim.preparse([op["script"] + "\n", op["script"]])
    res = proc.in_child(_batch_child, [op], 0, timeout=300)
    recs, _stats = res[0]
    return [{"invariant": rule, "observed": detail, "digest": ""} for (rule, detail) in recs]
