"""C16 — run() releases its session resources at every failure point.

Fault enumeration: a fault-free reference run numbers the seam calls 1..K; for every k and
every applicable fault kind (instead-of / after variants) the run is repeated in a pristine
forked process with that single fault; then the ledger (session dir, db files, fds, open
connections) is checked and probe operations must behave as in a pristine process."""
import gc
import json
import os
import random

from .. import corpus, gen, gen_dag, ops, proc, seams
from ..seams import SIM

BUDGET = {"quick": 150.0, "thorough": 3300.0}

CONN_KINDS = ["io_nospace", "io_read", "oom", "interrupt", "conn_closed", "internal", "memerr", "kbdint"]
FILE_KINDS = ["os_enospc", "os_eio", "os_eacces", "os_emfile", "memerr", "kbdint"]

PROBE_STRUCT = {"datasets": [{"name": "P_1", "DataStructure": [
    {"name": "Id_1", "type": "Integer", "role": "Identifier", "nullable": False},
    {"name": "Me_1", "type": "Number", "role": "Measure", "nullable": True}]}]}
PROBE_DATA = {"P_1": {"kind": "df", "columns": ["Id_1", "Me_1"], "rows": [[1, 1.5], [2, None], [3, 0.1]]}}
PROBES = [
    {"api": "run", "script": "P_r <- P_1 * 3 + P_1; P_s <- sum(P_1);", "structures": PROBE_STRUCT, "data": PROBE_DATA,
     "kwargs": {}, "env": {}},
    {"api": "run", "script": "P_r <- P_1 / 0;", "structures": PROBE_STRUCT, "data": PROBE_DATA, "kwargs": {}, "env": {}},
    {"api": "semantic_analysis", "script": "P_r <- P_1 + P_9;", "structures": PROBE_STRUCT, "kwargs": {}, "env": {}},
    # probes that read the pieces of process-global state a run configures: period representation,
    # viral propagation rules, number formatting of written files, virtual-name counters in messages
    {"api": "run", "script": 'P_s <- cast(cast("2020Q1", time_period), string); P_r <- P_2[calc Me_s := cast(Id_2, string)];',
     "structures": {"datasets": [{"name": "P_2", "DataStructure": [
         {"name": "Id_1", "type": "Integer", "role": "Identifier", "nullable": False},
         {"name": "Id_2", "type": "Time_Period", "role": "Identifier", "nullable": False},
         {"name": "Me_1", "type": "Number", "role": "Measure", "nullable": True}]}]},
     "data": {"P_2": {"kind": "df", "columns": ["Id_1", "Id_2", "Me_1"], "rows": [[1, "2020Q1", 1.5], [2, "2021M03", 2.25], [3, "2019A", None]]}},
     "kwargs": {}, "env": {}},
    {"api": "run", "script": 'define viral propagation P_vp (variable VAt_1) is when "A" then "Z"; else "D" end viral propagation;\nP_r <- P_3 + P_3; P_g <- sum(P_3 group by Id_1);',
     "structures": {"datasets": [{"name": "P_3", "DataStructure": [
         {"name": "Id_1", "type": "Integer", "role": "Identifier", "nullable": False},
         {"name": "Id_2", "type": "String", "role": "Identifier", "nullable": False},
         {"name": "Me_1", "type": "Number", "role": "Measure", "nullable": True},
         {"name": "VAt_1", "type": "String", "role": "Viral Attribute", "nullable": True}]}]},
     "data": {"P_3": {"kind": "df", "columns": ["Id_1", "Id_2", "Me_1", "VAt_1"], "rows": [[1, "x", 1.0, "A"], [1, "y", 2.0, "B"], [2, "x", 3.0, None]]}},
     "kwargs": {}, "env": {}},
    {"api": "run", "script": "P_r <- P_1 / 3; P_t <- P_1[calc Me_2 := Me_1 * 1.123456789123];", "structures": PROBE_STRUCT, "data": PROBE_DATA,
     "kwargs": {}, "env": {}, "output_folder": True},
    {"api": "semantic_analysis", "script": "P_a <- if P_1#Me_1 > 1 then P_1 else P_1 * 2; P_b <- P_a[keep Me_77];", "structures": PROBE_STRUCT, "kwargs": {}, "env": {}},
]

# operations that fail on their own (no injection needed)
def natural_failures(rng):
    w = gen.generate(random.Random(rng.random()), n_inputs=2, n_statements=3, rows=4, viral=False, time_period=False)
    base = gen.as_op(w)
    out = []

    def v(tag, **ch):
        o = json.loads(json.dumps(base))
        o.update({k: val for k, val in ch.items() if k not in ("env", "kwargs")})
        o["env"] = dict(ch.get("env", {}))
        o["kwargs"] = dict(ch.get("kwargs", {}))
        o["natural"] = tag
        out.append(o)

    v("memory-limit-unparsable", env={"VTL_MEMORY_LIMIT": "banana"})
    v("memory-limit-too-small", env={"VTL_MEMORY_LIMIT": "1KB"})
    v("threads-not-int", env={"VTL_THREADS": "many"})
    v("threads-zero", env={"VTL_THREADS": "0"})
    v("decimal-width-too-small", env={"VTL_DUCKDB_DECIMAL_WIDTH": "3"})
    v("decimal-scale-too-big", env={"OUTPUT_NUMBER_SIGNIFICANT_DIGITS": "40"})
    v("decimal-width-not-int", env={"VTL_DUCKDB_DECIMAL_WIDTH": "wide"})
    v("max-temp-size-unparsable", env={"VTL_MAX_TEMP_DIRECTORY_SIZE": "lots"})
    v("bad-period-format", kwargs={"time_period_output_format": "martian"})
    v("bad-output-format", kwargs={"output_format": "xlsx"}, output_folder=True)
    # failures in the fetch / file-writing phase, after every statement has run
    v("output-folder-is-a-file", output_folder="is-a-file")
    long_name = "Z_" + "x" * 250
    v("result-file-name-too-long", script=base["script"] + "%s <- DS_1;\n" % long_name, output_folder=True)
    v("division-by-zero", script=base["script"] + "Z_9 <- DS_1 / 0;\n")
    v("semantic-error", script=base["script"] + "Z_9 <- DS_1 + DS_77;\n")
    v("syntax-error", script=base["script"] + "Z_9 <- DS_1 +;\n")
    # a period that the requested output representation cannot express: fails while results are being fetched
    tp = {"datasets": [{"name": "T_1", "DataStructure": [
        {"name": "Id_1", "type": "Integer", "role": "Identifier", "nullable": False},
        {"name": "Id_t", "type": "Time_Period", "role": "Identifier", "nullable": False},
        {"name": "Me_1", "type": "Number", "role": "Measure", "nullable": True}]}]}
    out.append({"api": "run", "script": "T_a <- T_1 * 2; T_b <- T_1[filter Me_1 > 0]; T_c := T_a + T_b;\n", "structures": tp,
                "data": {"T_1": {"kind": "df", "columns": ["Id_1", "Id_t", "Me_1"], "rows": [[1, "2020Q1", 1.0], [2, "2020M03", 2.0], [3, "2021S2", None]]}},
                "kwargs": {"time_period_output_format": "sdmx_gregorian"}, "env": {}, "output_folder": False, "natural": "period-not-renderable"})
    out.append({"api": "run", "script": "T_a <- T_1 * 2; T_b <- T_1[filter Me_1 > 0];\n", "structures": tp,
                "data": {"T_1": {"kind": "csv_text", "text": "Id_1,Id_t,Me_1\n1,2020Q1,1.0\n2,2020W07,2.0\n"}},
                "kwargs": {"time_period_output_format": "sdmx_gregorian"}, "env": {"VTL_USE_IN_MEMORY_DB": "0"}, "output_folder": True,
                "natural": "period-not-renderable-file-backed"})
    # duplicate identifiers in an input (load validation fails after the table exists)
    d = json.loads(json.dumps(base))
    name = sorted(d["data"])[0]
    spec = d["data"][name]
    if spec["kind"] == "csv_text":
        lines = spec["text"].strip("\n").split("\n")
        if len(lines) > 1:
            spec["text"] = "\n".join(lines + [lines[1]]) + "\n"
    elif spec["rows"]:
        spec["rows"] = spec["rows"] + [spec["rows"][0]]
    d["natural"] = "duplicate-identifiers"
    d["script"] = "Z_1 <- %s;\n" % name + d["script"]
    out.append(d)
    # the same, with an input file of more than 1 MiB (anything remembered per file, e.g. keyed by path / size / mtime,
    # is remembered for this one too); the history's later runs read the same unchanged file
    big_cols = ["Id_1", "Me_1"]
    big_lines = ["Id_1,Me_1"] + ["%d,%d.5" % (i, i % 97) for i in range(140000)] + ["17,3.5"]
    out.append({"api": "run", "script": "B_r <- B_1 * 2;\n", "structures": {"datasets": [{"name": "B_1", "DataStructure": [
        {"name": "Id_1", "type": "Integer", "role": "Identifier", "nullable": False},
        {"name": "Me_1", "type": "Number", "role": "Measure", "nullable": True}]}]},
        "data": {"B_1": {"kind": "csv_text", "text": "\n".join(big_lines) + "\n"}}, "kwargs": {}, "env": {}, "output_folder": False,
        "natural": "duplicate-identifiers-large-file"})
    # second input broken so that the first one is already loaded when the failure happens
    d2 = json.loads(json.dumps(base))
    names = sorted(d2["data"])
    if len(names) > 1:
        cols = d2["structures"]["datasets"][0]["DataStructure"]
        d2["data"][names[1]] = {"kind": "csv_text", "text": ",".join(c["name"] for c in cols) + "\nnot_a_number" + "," * (len(cols) - 1) + "\n"}
        d2["script"] = "Z_1 <- %s; Z_2 <- %s + Z_1;\n" % (names[0], names[1])
        d2["natural"] = "bad-value-in-second-input"
        out.append(d2)
    return out


def phases(reflog):
    """Attribute every seam call of a reference run to a phase of run()."""
    out = []
    state = "configure"
    for (_seq, _th, _op, k, kind, detail) in reflog:
        ph = state
        if kind == "connect":
            ph = "connect"
        elif kind == "close":
            ph = "close"
        elif kind == "execute":
            ev = seams.classify(detail)
            if ev[0] == "MACROS" or detail.startswith("--"):
                ph = state = "macros"
            elif ev[0] == "SET" and state in ("configure", "connect"):
                ph = "configure"
            elif ev[0] == "CREATE":
                ph = state = "load"
            elif ev[0] == "EXEC":
                ph = "statement"
                state = "after-statement"
            elif ev[0] == "DROP":
                ph = "release" if state != "load" else "load"
            elif ev[0] in ("PROBE", "SELECT", "COPY") and state != "load":
                ph = state = "fetch"
            elif ev[0] == "UPDATE" and ev[2] == "repr":
                ph = state = "fetch"
        elif kind in ("fetchdf",):
            ph = "fetch" if state != "load" else "load"
        elif kind == "file_write":
            ph = "fetch"
        elif kind == "mkdir":
            ph = "configure" if state in ("configure", "connect") else "fetch"
        elif kind == "create_function":
            ph = "configure"
        out.append((k, kind, ph))
    return out


# ------------------------------------------------------------------ child-side code

def _ledger(sb):
    left = sb.leftovers()
    flags = []
    sess = [p for p in left if os.path.basename(p).startswith("duckdb_tmp_")]
    dbf = [p for p in left if p.endswith(".duckdb") or p.endswith(".wal") or p.endswith(".duckdb.tmp")]
    if sess:
        flags.append(("session-dir-left", sess[:3]))
    if dbf:
        flags.append(("db-file-left", dbf[:3]))
    # anything else the run created under its temporary directory (whatever it is called)
    other = [p for p in left if p not in sess and p not in dbf and not any(p.startswith(x + os.sep) for x in sess)]
    if other:
        flags.append(("temp-entry-left", other[:3]))
    fds = sb.open_fds()
    if fds:
        flags.append(("fd-left", fds[:3]))
    gc.collect()
    live = SIM.live_open_connections()
    if live:
        flags.append(("connection-left-open", [c._database for c in live][:3]))
        for c in live:  # do not let one leak be reported again by the next step
            try:
                c._c.close()
            except Exception:
                pass
    # clear the ledger for the next step: what is left is attributed to this step only
    import shutil

    for p in sess + other:
        q = os.path.join(sb.tmp, p)
        if os.path.isdir(q):
            shutil.rmtree(q, ignore_errors=True)
        elif os.path.exists(q):
            os.unlink(q)
    return flags


def _scenario_child(steps, seed):
    """steps: list of {"op": op, "faults": [{k, kind, when}]}.  Executes them in order in this
    (pristine) process.  Returns per-step (outcome, ledger flags, fired, K)."""
    sb = ops.Sandbox("c16")
    try:
        plan = []
        for i, st in enumerate(steps):
            for f in st.get("faults") or []:
                plan.append({"op": i, "k": f["k"], "kind": f["kind"], "when": f.get("when", "instead")})
        SIM.reset(seed=seed, faults=plan)
        out = []
        for i, st in enumerate(steps):
            SIM.begin_op(i)
            n_fired = len(SIM.fired)
            at_raise = []
            oc = ops.execute_op(st["op"], sb, i, on_raise=lambda: at_raise.extend(sb.leftovers()))
            flags = _ledger(sb)
            # what was on disk at the moment run() raised, while the error was still referenced (cleanup must not
            # wait for the exception, its traceback or the garbage collector to go away)
            early = [p for p in at_raise if os.path.basename(p).startswith("duckdb_tmp_") or p.endswith((".duckdb", ".wal"))]
            if early and not any(f[0] in ("session-dir-left", "db-file-left") for f in flags):
                flags.append(("session-dir-present-when-run-raised", early[:3]))
            out.append({"outcome": oc, "ledger": flags, "fired": [list(x) for x in SIM.fired[n_fired:]], "K": SIM.k})
        return {"steps": out, "digest": SIM.digest(), "events": len(SIM.events)}
    finally:
        sb.cleanup()


def _reference_child(op, seed):
    sb = ops.Sandbox("c16r")
    try:
        SIM.reset(seed=seed)
        SIM.begin_op(0)
        at_raise = []
        oc = ops.execute_op(op, sb, 0, on_raise=lambda: at_raise.extend(sb.leftovers()))
        flags = _ledger(sb)
        if at_raise and not flags:
            flags.append(("session-dir-present-when-run-raised", at_raise[:3]))
        # phases() uses DuckDB's SQL parser: only ever in a child, never in the zygote
        return {"outcome": oc, "ledger": flags, "K": SIM.k, "phases": phases(list(SIM.events))}
    finally:
        sb.cleanup()


_probe_ref = {}


def _probe_refs(seed):
    if "v" not in _probe_ref:
        _probe_ref["v"] = [proc.in_child(_reference_child, p, seed)["outcome"] for p in PROBES]
    return _probe_ref["v"]


# ------------------------------------------------------------------ worker-side tasks

def _preparse(op_list):
    from ..parser_standin import shim

    texts = []
    for o in op_list:
        if "script" in o:
            texts.append(o["script"] + "\n")
            texts.append(o["script"])
    shim.preparse(texts)


def task_reference(task):
    """Reference run of a scenario: K, phases, outcome."""
    op = task["op"]
    _preparse([op] + PROBES)
    ref = proc.in_child(_reference_child, op, task["seed"])
    return {"K": ref["K"], "outcome": ref["outcome"], "phases": ref["phases"], "ledger": ref["ledger"]}


def build_steps(op, sequence, natural=False):
    """A history for one pristine process: the failing attempts of `sequence` (each a list of
    faults; [] = the operation fails on its own), each followed by nothing, then the same
    operation fault-free (default knobs for a natural failure), then the probes."""
    steps = []
    for fl in sequence:
        steps.append({"op": op, "faults": fl, "role": "natural" if natural else "faulted"})
    steps.append({"op": _plain(op), "faults": [], "role": "again"})
    for i, p in enumerate(PROBES):
        steps.append({"op": p, "faults": [], "role": "probe:%d" % i})
    return steps


def build_batch(op, sequences):
    """Several fault sequences in ONE process (cheaper than a fork per sequence): after each
    sequence the same operation runs fault-free; the probes run once at the end."""
    steps = []
    for seq in sequences:
        for fl in seq:
            steps.append({"op": op, "faults": fl, "role": "faulted"})
        steps.append({"op": _plain(op), "faults": [], "role": "again"})
    for i, p in enumerate(PROBES):
        steps.append({"op": p, "faults": [], "role": "probe:%d" % i})
    return steps


def judge(op, steps, child, ref_outcome, again_ref, probe_refs, phase_of):
    """Apply the oracle to one executed history; returns [(invariant, step, observed, site)]."""
    viols = []
    site = {"phase": "natural:" + str(op.get("natural"))} if op.get("natural") else {"phase": "none"}
    for i, (st, res) in enumerate(zip(steps, child["steps"])):
        role = st["role"]
        oc = res["outcome"]
        if role in ("faulted", "natural"):
            if st["faults"]:
                f = st["faults"][0]
                site = {"phase": phase_of.get(f["k"], "?"), "when": f.get("when", "instead")}
            if role == "faulted" and oc[0] == "ok":
                # (1) run() raised, or returned exactly the reference result
                if ref_outcome[0] == "ok":
                    d = ops.diff_outcomes(ref_outcome, oc)
                    if d:
                        viols.append(("wrong-result-after-fault", i, d, site))
                elif res["fired"]:
                    viols.append(("wrong-result-after-fault", i, "reference run fails but the faulted run returned a result", site))
        elif role == "again":
            d = ops.diff_outcomes(again_ref, oc)
            if d:
                viols.append(("not-as-if-never-happened", i, "same operation, fault-free, after the failure: " + d, site))
        elif role.startswith("probe:"):
            d = ops.diff_outcomes(probe_refs[int(role[6:])], oc, compare_messages=True)
            if d:
                viols.append(("not-as-if-never-happened", i, "%s after the failure: %s" % (role, d), site))
        for name, what in res["ledger"]:
            viols.append((name, i, "%s after step %d (%s)" % (what, i, role), site))
    return viols


def _record(task, seq, inv, step, observed, site, child):
    return {"invariant": inv, "signature": dict(site or {}, invariant=inv), "observed": observed, "step": step,
            "scenario": {"sid": task["sid"], "op": task["op"], "sequence": seq, "seed": task["seed"]},
            "digest": child["digest"]}


def task_faults(task):
    """Enumerate a chunk of fault sequences for one scenario.  The chunk first runs as one
    batch in one pristine process; if that batch shows any violation, every sequence of the
    chunk is re-run alone in its own pristine process and judged there (exact attribution);
    a batch violation that no isolated run reproduces is reported with the whole batch as
    its history."""
    op = task["op"]
    seed = task["seed"]
    natural = bool(op.get("natural"))
    _preparse([op, _plain(op)] + PROBES)
    probe_refs = _probe_refs(seed)
    ref_outcome = _tuplify(task["ref_outcome"])
    again_ref = _tuplify(task.get("plain_ref_outcome") or task["ref_outcome"])
    phase_of = {int(k): v for k, v in task["phase_of"].items()}
    records = []
    stats = {"runs": 0, "processes": 0, "fired": {}, "phase_hits": {}, "masked": 0, "nontrivial": []}

    def account(steps, child):
        for st, res in zip(steps, child["steps"]):
            stats["runs"] += 1
            for f in res["fired"]:
                stats["fired"][f[2]] = stats["fired"].get(f[2], 0) + 1
                ph = phase_of.get(f[1], "?")
                stats["phase_hits"][ph] = stats["phase_hits"].get(ph, 0) + 1
                stats["nontrivial"].append("%s|%d|%s|%s" % (task["sid"], f[1], f[2], f[3]))
                if res["outcome"][0] == "ok":
                    stats["masked"] += 1
            if st["role"] == "natural":
                stats["nontrivial"].append("%s|natural|%d" % (task["sid"], len(steps)))

    seqs = task["sequences"]
    if natural:
        batch_viols = True  # natural failures are few: always run each alone
    else:
        steps = build_batch(op, seqs)
        child = proc.in_child(_scenario_child, steps, seed, timeout=60 + 20 * len(steps))
        stats["processes"] += 1
        account(steps, child)
        batch_viols = judge(op, steps, child, ref_outcome, again_ref, probe_refs, phase_of)
    if batch_viols:
        isolated = 0
        for seq in seqs:
            steps1 = build_steps(op, seq, natural)
            ch1 = proc.in_child(_scenario_child, steps1, seed, timeout=240)
            stats["processes"] += 1
            account(steps1, ch1)
            for (inv, step, observed, site) in judge(op, steps1, ch1, ref_outcome, again_ref, probe_refs, phase_of):
                isolated += 1
                records.append(_record(task, seq, inv, step, observed, site, ch1))
        if not natural and not isolated:
            (inv, step, observed, site) = batch_viols[0]
            flat = [fl for seq in seqs for fl in seq]
            rec = _record(task, flat, inv, step, observed + " [only in the batch history]", site, child)
            rec["scenario"]["batch"] = seqs
            records.append(rec)
    return {"records": records, "stats": stats}


def _plain(op):
    o = dict(op)
    if op.get("natural"):
        o = json.loads(json.dumps(op))
        o["env"] = {}
        kw = dict(o.get("kwargs") or {})
        kw.pop("time_period_output_format", None)
        kw.pop("output_format", None)
        o["kwargs"] = kw
        if o.get("output_folder") == "is-a-file":
            o["output_folder"] = True
    return o


def _tuplify(x):
    if isinstance(x, list):
        return tuple(_tuplify(v) for v in x)
    if isinstance(x, dict):
        return {k: _tuplify(v) for k, v in x.items()}
    return x


def task_plain_reference(task):
    op = _plain(task["op"])
    _preparse([op])
    ref = proc.in_child(_reference_child, op, task["seed"])
    return {"outcome": ref["outcome"]}


# ------------------------------------------------------------------ planning

def _swarm_op(rng, source):
    env = {}
    if rng.random() < 0.4:
        env["VTL_USE_IN_MEMORY_DB"] = "0"
    out_folder = rng.random() < 0.35
    kw = {}
    if rng.random() < 0.4:
        kw["return_only_persistent"] = False
    if out_folder and rng.random() < 0.4:
        kw["output_format"] = "parquet"
    if source[0] == "dag":
        g = random.Random(source[1])
        w = gen_dag.generate(g, n_statements=g.choice([2, 3, 4]), rows=g.choice([2, 3]), scalar_bias=0.4)
        return gen.as_op(w, kwargs=kw, env=env, output_folder=out_folder or g.random() < 0.5)
    if source[0] == "gen":
        force_dialect = len(source) > 2 and source[2] == "dialect"
        w = gen.generate(random.Random(source[1]), n_statements=rng.choice([1, 2, 3, 3, 4]),
                         rows=rng.choice([2, 3, 5]), carriers=("csv_text",) if force_dialect else ("df", "csv_text", "parquet_df"))
        if w["meta"]["time_period"] and rng.random() < 0.6:
            kw["time_period_output_format"] = rng.choice(["vtl", "sdmx_reporting", "sdmx_gregorian", "natural"])
        if force_dialect or rng.random() < 0.35:
            # CSV dialects other than the comma fast path (the loader then sniffs the file through the connection)
            d = rng.choice([";", "|", "\t"])
            for spec in w["data"].values():
                if spec["kind"] == "csv_text" and not any(ch in spec["text"] for ch in ';|\t"'):
                    spec["text"] = spec["text"].replace(",", d)
        return gen.as_op(w, kwargs=kw, env=env, output_folder=out_folder)
    e = source[1]
    return corpus.as_op(e, kwargs=kw, env=env, output_folder=out_folder)


def run(ctx):
    rng = random.Random(ctx.seed * 1000003 + 16)
    quick = ctx.tier == "quick"
    n_gen = 10 if quick else 160
    n_corpus = 8 if quick else 220
    scen = []
    for i in range(n_gen):
        scen.append(("gen", rng.randrange(1 << 30)) if i % 3 else ("gen", rng.randrange(1 << 30), "dialect"))
    for i in range(3 if quick else 60):
        scen.append(("dag", rng.randrange(1 << 30)))      # scalar results, UDOs, rulesets; half of them write result files
    cps = [e for e in corpus.discover() if e["bytes"] < 20000]
    for e in rng.sample(cps, min(n_corpus, len(cps))):
        scen.append(("corpus", e))
    # scripts with an eval operator open a second (auxiliary) connection during semantic analysis
    evals = [e for e in corpus.discover() if e["id"].startswith("Eval/") and e.get("sqls")]
    for e in (evals[:1] if quick else evals):
        if all(e is not x[1] for x in scen if x[0] == "corpus"):
            scen.insert(0, ("corpus", e))
    tasks = []
    for i, s in enumerate(scen):
        op = _swarm_op(rng, s)
        tasks.append({"sid": "%s-%d" % (s[0], i) if s[0] in ("gen", "dag") else "corpus:" + s[1]["id"], "op": op, "seed": ctx.seed})
    nat = natural_failures(rng)
    # phase 1: references
    refs = ctx.map("task_reference", tasks, budget_s=ctx.budget_s * 0.25, min_tasks=8)
    nat_tasks = [{"sid": "natural:" + o["natural"], "op": o, "seed": ctx.seed} for o in nat]
    nat_refs = ctx.map("task_plain_reference", nat_tasks, budget_s=ctx.budget_s * 0.1, min_tasks=4)
    # phase 2: enumerate
    chunks = []
    enumerated = []
    maxK = 60 if quick else 400
    for t, r in refs:
        if r["ledger"]:
            # fault-free run leaving resources behind is a violation on its own
            pass
        K = r["K"]
        ph = {k: p for (k, _kind, p) in r["phases"]}
        kinds_of = {}
        for (k, kind, p) in r["phases"]:
            if kind == "close":
                continue
            kinds_of[k] = FILE_KINDS if kind in ("open", "file_write", "mkdir") else CONN_KINDS
        mkdirs = {k for (k, kind, _p) in r["phases"] if kind == "mkdir"}
        # a directory creation either fails or happens: no "happened, then failed" variant
        points = [(k, kd, wh) for k in sorted(kinds_of) for kd in kinds_of[k] for wh in ("instead", "after")
                  if not (k in mkdirs and wh == "after")]
        if not points:
            # the operation made no seam call at all (it failed before reaching the engine): nothing to enumerate
            enumerated.append({"sid": t["sid"], "K": K, "points": 0, "exhaustive": True, "reference": r["outcome"][0]})
            continue
        exhaustive = K <= maxK
        if not exhaustive:
            points = rng.sample(points, min(len(points), 16 * maxK))
        enumerated.append({"sid": t["sid"], "K": K, "points": len(points), "exhaustive": exhaustive,
                           "reference": r["outcome"][0]})
        seqs = [[[{"k": k, "kind": kd, "when": wh}]] for (k, kd, wh) in points]
        # fault sequences: 2-3 failing runs before the probes
        for _ in range(max(2, len(points) // 12)):
            n = rng.choice([2, 3])
            seqs.append([[{"k": k, "kind": kd, "when": wh}] for (k, kd, wh) in (rng.choice(points) for _ in range(n))])
        rng.shuffle(seqs)
        size = 12
        for i in range(0, len(seqs), size):
            chunks.append({"sid": t["sid"], "op": t["op"], "seed": ctx.seed, "ref_outcome": r["outcome"],
                           "phase_of": {str(k): v for k, v in ph.items()}, "sequences": seqs[i:i + size]})
    nat_chunks = []
    for t, r in nat_refs:
        nat_chunks.append({"sid": t["sid"], "op": t["op"], "seed": ctx.seed, "ref_outcome": r["outcome"],
                       "plain_ref_outcome": r["outcome"], "phase_of": {}, "sequences": [[[]], [[], []], [[], [], []]]})
    # interleave chunks of different scenarios so that a budget cut does not drop whole scenarios
    rng.shuffle(chunks)
    chunks = nat_chunks + chunks
    done = ctx.map("task_faults", chunks, min_tasks=48)
    # ---- collect
    violations = []
    fired, phase_hits, nontrivial = {}, {}, set()
    runs = masked = processes = 0
    per_sid_done = {}
    for t, r in done:
        violations += r["records"]
        runs += r["stats"]["runs"]
        processes += r["stats"]["processes"]
        masked += r["stats"]["masked"]
        for k, v in r["stats"]["fired"].items():
            fired[k] = fired.get(k, 0) + v
        for k, v in r["stats"]["phase_hits"].items():
            phase_hits[k] = phase_hits.get(k, 0) + v
        nontrivial.update(r["stats"]["nontrivial"])
        per_sid_done[t["sid"]] = per_sid_done.get(t["sid"], 0) + len(t["sequences"])
    for t, r in refs:
        for name, what in r["ledger"]:
            violations.append({"invariant": name, "signature": {"phase": "fault-free", "invariant": name},
                               "observed": "fault-free run left %s" % (what,), "step": 0,
                               "scenario": {"sid": t["sid"], "op": t["op"], "sequence": [[]], "seed": ctx.seed}, "digest": ""})
    fully = [e for e in enumerated if e["exhaustive"] and per_sid_done.get(e["sid"], 0) >= e["points"]]
    samples = []
    for t, r in refs[:3]:
        samples.append({"sid": t["sid"], "script": t["op"]["script"][:400], "env": t["op"]["env"], "kwargs": t["op"]["kwargs"],
                        "output_folder": t["op"]["output_folder"], "K": r["K"],
                        "phases": [p for (_k, _kd, p) in r["phases"]]})
    coverage = {
        "evaluations": runs,
        "distinct_nontrivial": len(nontrivial),
        "pristine_processes": processes,
        "rule": "one evaluation = one engine operation executed inside a simulated history. A history runs in a pristine forked process: "
                "[1-3 faulted runs of a scenario, the same run fault-free]* then 3 probe operations; histories with any alarm are re-run one fault sequence per pristine process. "
                "Fault points are every seam call k of the scenario's reference run x every applicable fault kind x {instead-of, after}; "
                "distinct_nontrivial counts distinct (scenario, k, kind, when) whose fault actually fired inside run(), plus natural-failure scenarios.",
        "samples": samples,
        "scenarios": len(refs), "scenarios_enumerated_completely": len(fully),
        "scenario_table": enumerated[:40],
        "exhaustive": False,
        "fault_kinds_fired": fired,
        "fault_site_phase_hits": phase_hits,
        "faults_masked_by_engine_with_reference_result": masked,
        "natural_failure_scenarios": [o["natural"] for o in nat],
        "chunks_skipped_by_budget": getattr(ctx, "last_skipped", 0),
        "seam_calls_in_reference_runs": sum(r["K"] for _t, r in refs),
    }
    return {"level": "fault_enumeration", "coverage": coverage, "violations": violations,
            "assumptions": [
                "parser is a stand-in (Java ANTLR interpreter over /repo's ATN); everything else is real code",
                "faults are never injected into conn.close() or shutil.rmtree themselves",
                "a fault fires instead of or right after a Python-visible call on the connection / engine file I/O; failures inside DuckDB's native code between such calls are not simulated",
            ]}


def replay(rec):
    sc = rec["scenario"]
    op = sc["op"]
    seed = sc.get("seed", 0)
    natural = bool(op.get("natural"))
    _preparse([op, _plain(op)] + PROBES)
    probe_refs = _probe_refs(seed)
    ref = proc.in_child(_reference_child, op, seed)
    ref_outcome = ref["outcome"]
    phase_of = {k: p for (k, _kd, p) in ref["phases"]}
    again_ref = proc.in_child(_reference_child, _plain(op), seed)["outcome"] if natural else ref_outcome
    if rec.get("signature", {}).get("phase") == "fault-free":
        return [{"invariant": name, "observed": what, "digest": ""} for name, what in ref["ledger"]]
    if "batch" in sc:
        steps = build_batch(op, sc["batch"])
    else:
        steps = build_steps(op, sc["sequence"], natural)
    child = proc.in_child(_scenario_child, steps, seed, timeout=60 + 20 * len(steps))
    viols = judge(op, steps, child, ref_outcome, again_ref, probe_refs, phase_of)
    return [{"invariant": inv, "observed": obs, "digest": child["digest"]} for (inv, _s, obs, _site) in viols]
