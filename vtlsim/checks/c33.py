"""C33 — results depend only on the set of input datapoints.

Simulated nondeterminism: the physical row order of every *input* table right after its
load (connection seam; the engine opted into unspecified order with
preserve_insertion_order=false), plus row/column shuffles of the input carriers.
Oracle: sorted-multiset equality with the unpermuted run."""
import copy
import itertools
import random

from .. import corpus, determined, gen, gen_dag, minimise, ops, proc
from ..seams import SIM

# relative tolerance for floating-point cells (VERIF_FLOAT_TOL overrides; 0 = bit-exact)
FLOAT_TOL = float(__import__("os").environ.get("VERIF_FLOAT_TOL", "0"))
BUDGET = {"quick": 120.0, "thorough": 3300.0}


def _apply_variant(op, var):
    o = copy.deepcopy(op)
    t = var["type"]
    if t == "carrier_reverse":
        for name in sorted(o["data"]):
            spec = o["data"][name]
            if spec["kind"] in ("df", "parquet_df"):
                spec["rows"] = spec["rows"][::-1]
            elif spec["kind"] == "csv_text":
                lines = spec["text"].rstrip("\n").split("\n")
                spec["text"] = "\n".join([lines[0]] + lines[1:][::-1]) + "\n"
    if t in ("carrier_rows", "carrier_cols"):
        rng = random.Random(var["seed"])
        for name in sorted(o["data"]):
            spec = o["data"][name]
            if spec["kind"] in ("df", "parquet_df"):
                if t == "carrier_rows":
                    rng.shuffle(spec["rows"])
                else:
                    idx = list(range(len(spec["columns"])))
                    rng.shuffle(idx)
                    spec["columns"] = [spec["columns"][i] for i in idx]
                    spec["rows"] = [[r[i] for i in idx] for r in spec["rows"]]
            elif spec["kind"] == "csv_text":
                lines = spec["text"].rstrip("\n").split("\n")
                hdr, body = lines[0], lines[1:]
                if t == "carrier_rows":
                    rng.shuffle(body)
                elif '"' not in spec["text"]:
                    idx = list(range(len(hdr.split(","))))
                    rng.shuffle(idx)
                    hdr = ",".join(hdr.split(",")[i] for i in idx)
                    body = [",".join(b.split(",")[i] for i in idx) for b in body]
                spec["text"] = "\n".join([hdr] + body) + "\n"
    return o


def _run_variant(op, var, sb, n):
    t = var["type"]
    if t == "seam":
        SIM.reset(seed=n, permute=var["salt"])
    elif t == "explicit":
        SIM.reset(seed=n, permute=1, explicit_perms=var["perms"])
    else:
        SIM.reset(seed=n)
    SIM.begin_op(0)
    oc = ops.execute_op(_apply_variant(op, var), sb, n)
    return oc, list(SIM.permuted)


def _child(op, variants):
    sb = ops.Sandbox("c33")
    try:
        SIM.reset(seed=0)
        SIM.begin_op(0)
        ref = ops.execute_op(op, sb, 0)
        out = []
        if ref[0] != "ok":
            return {"ref": ref, "variants": []}
        for i, var in enumerate(variants):
            oc, permuted = _run_variant(op, var, sb, i + 1)
            d = ops.diff_outcomes(ref, oc, tol=FLOAT_TOL)
            out.append({"diff": d, "permuted": permuted, "status": oc[0]})
        return {"ref": ("ok",), "variants": out}
    finally:
        sb.cleanup()


def _variants_for(op, rng, quick):
    if (op.get("meta") or {}).get("sampling"):
        return [{"type": "carrier_rows", "seed": rng.randrange(1 << 30)}, {"type": "carrier_reverse"},
                {"type": "carrier_cols", "seed": rng.randrange(1 << 30)}, {"type": "seam", "salt": rng.randrange(1, 1 << 30)}]
    vs = []
    nrows = {}
    for name, spec in (op.get("data") or {}).items():
        if spec["kind"] in ("df", "parquet_df"):
            nrows[name] = len(spec["rows"])
        elif spec["kind"] == "csv_text":
            nrows[name] = len(spec["text"].rstrip("\n").split("\n")) - 1
    small = {n: k for n, k in nrows.items() if 2 <= k <= (4 if quick else 5)}
    if small and all(k <= (4 if quick else 5) for k in nrows.values()):
        # exhaustive over the permutations of one input (the others random), bounded
        name = rng.choice(sorted(small))
        perms = list(itertools.permutations(range(small[name])))
        rng.shuffle(perms)
        for p in perms[: (8 if quick else 120)]:
            pm = {name: list(p)}
            for other, k in nrows.items():
                if other != name and k >= 2:
                    q = list(range(k))
                    rng.shuffle(q)
                    pm[other] = q
            vs.append({"type": "explicit", "perms": pm})
    for _ in range(3 if quick else 8):
        vs.append({"type": "seam", "salt": rng.randrange(1, 1 << 30)})
    if nrows:
        vs.append({"type": "carrier_rows", "seed": rng.randrange(1 << 30)})
        vs.append({"type": "carrier_cols", "seed": rng.randrange(1 << 30)})
    return vs


def sampling_workload(rng):
    """Inputs longer than any plausible inference sample (1k-20k rows) whose rows are homogeneous except for a
    few odd ones (a date-time among dates, a fraction among whole numbers, a wide integer, a non-null among
    nulls, a long string), stored at the end in the base order: a loader that infers anything from a leading
    sample of the physical rows gives a different result when the rows are permuted."""
    n = rng.choice([1100, 1500, 2100, 3000, 5000, 12000, 21000])
    odd_at = sorted(rng.sample(range(n - 40, n), rng.choice([1, 2, 5])))
    comps = [{"name": "Id_1", "type": "Integer", "role": "Identifier", "nullable": False},
             {"name": "Me_d", "type": "Date", "role": "Measure", "nullable": True},
             {"name": "Me_n", "type": "Number", "role": "Measure", "nullable": True},
             {"name": "Me_i", "type": "Integer", "role": "Measure", "nullable": True},
             {"name": "Me_s", "type": "String", "role": "Measure", "nullable": True},
             {"name": "Me_o", "type": "Number", "role": "Measure", "nullable": True},
             {"name": "At_b", "type": "Boolean", "role": "Attribute", "nullable": True}]
    cols = [c["name"] for c in comps]
    rows = []
    for i in range(n):
        odd = i in odd_at
        rows.append([i + 1,
                     "2020-05-19T12:30:00" if odd else "2020-%02d-%02d" % (1 + i % 12, 1 + i % 28),
                     2.5 if odd else float(i % 7),
                     (2 ** 40 + i) if odd else i % 100,
                     ("x" * 300) if odd else "v%d" % (i % 9),
                     1.25 if odd else None,
                     (i % 2 == 0) if odd else None])
    kind = rng.choice(["df", "df", "csv_text", "parquet_df"])
    if kind == "csv_text":
        data = {"DS_1": {"kind": "csv_text", "text": gen.csv_text(cols, rows)}}
    else:
        data = {"DS_1": {"kind": kind, "columns": cols, "rows": rows}}
    stmts = rng.sample(["R_copy <- DS_1;", "R_f <- DS_1[filter Me_n <> Me_o or isnull(Me_o)];", "R_c <- DS_1[calc Me_x := Me_n * 2 + Me_i];",
                        "R_a <- DS_1[aggr Me_t := sum(Me_n), Me_m := max(Me_i), Me_k := count(Me_o) group by At_b];" if False else "R_a <- sum(DS_1[keep Me_n, Me_i, Me_o]);",
                        "R_s <- DS_1[filter length(Me_s) > 10];", "R_d <- DS_1[calc Me_y := cast(Me_d, string)][keep Me_y];",
                        "R_o <- DS_1[filter not isnull(Me_o) or At_b];"], rng.choice([2, 3, 4]))
    return {"api": "run", "script": "\n".join(stmts) + "\n", "structures": {"datasets": [{"name": "DS_1", "DataStructure": comps}]},
            "data": data, "kwargs": {"return_only_persistent": False}, "env": {}, "output_folder": False, "meta": {"sampling": n}}


def timeseries_workload(rng):
    """Panel data: 2-4 series of different frequencies that start on the same date / period, and the
    time-series operators (results per series depend on the order of the *periods*, never on row order;
    anything inferred from 'the first series' or 'the first row' depends on the physical order)."""
    use_date = rng.random() < 0.55
    if use_date:
        pools = {"M": ["2020-01-31", "2020-02-29", "2020-03-31", "2020-04-30", "2020-05-31", "2020-06-30"],
                 "Q": ["2020-01-31", "2020-04-30", "2020-07-31", "2020-10-31", "2021-01-31"],
                 "A": ["2020-01-31", "2021-01-31", "2022-01-31"],
                 "S": ["2020-01-31", "2020-07-31", "2021-01-31"]}
        ttype = "Date"
    else:
        pools = {"M": ["2020M01", "2020M02", "2020M03", "2020M04", "2020M05"], "Q": ["2020Q1", "2020Q2", "2020Q3", "2020Q4", "2021Q1"],
                 "A": ["2020", "2021", "2022"], "S": ["2020S1", "2020S2", "2021S1"]}
        ttype = "Time_Period"
    freqs = rng.sample(["M", "Q", "A", "S"], rng.choice([2, 2, 3])) if rng.random() < 0.8 else [rng.choice(["M", "Q"])] * 2
    two_ids = rng.random() < 0.4
    comps = [{"name": "Id_1", "type": "String", "role": "Identifier", "nullable": False}]
    if two_ids:
        comps.append({"name": "Id_2", "type": "Integer", "role": "Identifier", "nullable": False})
    comps += [{"name": "Id_t", "type": ttype, "role": "Identifier", "nullable": False},
              {"name": "Me_1", "type": "Number", "role": "Measure", "nullable": True}]
    cols = [c["name"] for c in comps]
    rows = []
    for si, f in enumerate(freqs):
        n = rng.randrange(2, len(pools[f]) + 1)
        keep = sorted(rng.sample(range(1, len(pools[f])), n - 1)) if rng.random() < 0.3 else list(range(1, n))   # gaps in some series
        for j in [0] + keep:
            r = ["S%d" % si] + ([1 + si % 2] if two_ids else []) + [pools[f][j], None if rng.random() < 0.1 else float(rng.choice([1, 2, 3, 5, 10, 20]))]
            rows.append(r)
    kind = rng.choice(["df", "df", "csv_text", "parquet_df"])
    data = {"DS_1": {"kind": "csv_text", "text": gen.csv_text(cols, rows)} if kind == "csv_text" else {"kind": kind, "columns": cols, "rows": rows}}
    stmts = rng.sample(["R_sh <- timeshift(DS_1, 1);", "R_sb <- timeshift(DS_1, -1);", "R_fa <- fill_time_series(DS_1, all);", "R_fs <- fill_time_series(DS_1, single);",
                        "R_fl <- flow_to_stock(DS_1);", "R_st <- stock_to_flow(DS_1);", "R_c <- DS_1[calc Me_2 := Me_1 * 2];",
                        "R_g <- sum(DS_1 group by Id_1);", "R_l <- lag(DS_1, 1 over (partition by Id_1%s order by Id_t));" % (", Id_2" if two_ids else ""),
                        "R_fsh <- timeshift(fill_time_series(DS_1, single), 1);", "R_ffl <- flow_to_stock(fill_time_series(DS_1, all));"],
                       rng.choice([2, 3, 4]))
    return {"api": "run", "script": "\n".join(stmts) + "\n", "structures": {"datasets": [{"name": "DS_1", "DataStructure": comps}]},
            "data": data, "kwargs": {"return_only_persistent": False}, "env": {}, "output_folder": False, "meta": {"timeseries": ttype}}


def dates_workload(rng):
    """Small inputs with two or three Date measures whose time-of-day values sit in different rows (plus nulls):
    how a Date column is stored and rendered must be a function of the set of its values."""
    nd = rng.choice([2, 2, 3])
    comps = [{"name": "Id_1", "type": "Integer", "role": "Identifier", "nullable": False}] + \
            [{"name": "Me_%d" % (i + 1), "type": "Date", "role": "Measure", "nullable": True} for i in range(nd)] + \
            [{"name": "Me_n", "type": "Number", "role": "Measure", "nullable": True}]
    cols = [c["name"] for c in comps]
    n = rng.choice([3, 4, 5, 6])
    rows = []
    for i in range(n):
        r = [i + 1]
        for j in range(nd):
            if (i + j) % n == 0:
                r.append(rng.choice(["2020-03-0%d 10:30:00" % (j + 1), "2021-07-1%dT18:45:00" % j]))
            else:
                r.append(None if rng.random() < 0.15 else "2020-0%d-1%d" % (1 + (i + j) % 9, j))
        r.append(None if rng.random() < 0.2 else float(rng.choice([1, 2, 3, 5])))
        rows.append(r)
    kind = rng.choice(["df", "csv_text", "csv_text", "parquet_df"])
    data = {"DS_1": {"kind": "csv_text", "text": gen.csv_text(cols, rows)} if kind == "csv_text" else {"kind": kind, "columns": cols, "rows": rows}}
    stmts = rng.sample(["R_c <- DS_1;", "R_k <- DS_1[calc Me_x := Id_1 + 1];", "R_f <- DS_1[filter Me_n > 1 or isnull(Me_n)];",
                        "R_m <- DS_1[aggr Me_a := max(Me_1), Me_b := min(Me_2) group by Id_1];", "R_s <- DS_1[calc Me_s := cast(Me_1, string)];",
                        "R_p <- DS_1[keep Me_2, Me_n];"], rng.choice([1, 2, 3]))
    return {"api": "run", "script": "\n".join(stmts) + "\n", "structures": {"datasets": [{"name": "DS_1", "DataStructure": comps}]},
            "data": data, "kwargs": {"return_only_persistent": False}, "env": {}, "output_folder": rng.random() < 0.3, "meta": {"dates": nd}}


def analytic_workload(rng):
    """One or two analytic invocations with a total ordering (partition by Id_1, order by Id_2 [asc|desc]) over a small
    input: every function x window x direction combination is equally likely, so that none is a rare event."""
    comps = [{"name": "Id_1", "type": "Integer", "role": "Identifier", "nullable": False},
             {"name": "Id_2", "type": "Integer", "role": "Identifier", "nullable": False},
             {"name": "Me_1", "type": "Number", "role": "Measure", "nullable": True}]
    cols = ["Id_1", "Id_2", "Me_1"]
    n1, n2 = rng.choice([1, 2]), rng.choice([2, 3, 4])
    rows = [[a, b, None if rng.random() < 0.1 else float(rng.choice([1, 2, 3, 5, 10, 20, 50]))] for a in range(1, n1 + 1) for b in range(1, n2 + 1)]
    rng.shuffle(rows)
    windows = ["", " data points between unbounded preceding and unbounded following", " data points between 1 preceding and 1 following",
               " data points between unbounded preceding and current data point", " data points between current data point and unbounded following",
               " data points between 2 preceding and 1 preceding", " data points between 1 following and 2 following"]
    stmts = []
    for i in range(rng.choice([1, 2])):
        fn = rng.choice(["sum", "avg", "min", "max", "count", "first_value", "last_value", "lag", "lead", "rank"])
        d = rng.choice(["", " asc", " desc"])
        if fn in ("lag", "lead"):
            stmts.append("R_%d <- %s(DS_1, %d over (partition by Id_1 order by Id_2%s));" % (i, fn, rng.choice([1, 2]), d))
        elif fn == "rank":
            stmts.append("R_%d <- DS_1[calc Me_r := rank(over (partition by Id_1 order by Id_2%s))];" % (i, d))
        else:
            stmts.append("R_%d <- %s(DS_1 over (partition by Id_1 order by Id_2%s%s));" % (i, fn, d, rng.choice(windows)))
    kind = rng.choice(["df", "csv_text", "parquet_df"])
    data = {"DS_1": {"kind": "csv_text", "text": gen.csv_text(cols, rows)} if kind == "csv_text" else {"kind": kind, "columns": cols, "rows": rows}}
    return {"api": "run", "script": "\n".join(stmts) + "\n", "structures": {"datasets": [{"name": "DS_1", "DataStructure": comps}]},
            "data": data, "kwargs": {"return_only_persistent": False}, "env": {}, "output_folder": False, "meta": {"analytic_family": True}}


def _make_op(src):
    if src[0] == "analytic":
        o = analytic_workload(random.Random(src[1]))
        o["sid"] = "analytic:%d" % src[1]
        return o
    if src[0] == "dates":
        o = dates_workload(random.Random(src[1]))
        o["sid"] = "dates:%d" % src[1]
        return o
    if src[0] == "dag":
        rng = random.Random(src[1])
        w = gen_dag.generate(rng, rows=rng.choice([3, 4, 5, 6, 8]), n_statements=rng.choice([1, 2, 3, 4]))
        o = gen.as_op(w, kwargs={"return_only_persistent": False})
        o["sid"] = "dag:%d" % src[1]
        return o
    if src[0] == "tseries":
        o = timeseries_workload(random.Random(src[1]))
        o["sid"] = "tseries:%d" % src[1]
        return o
    if src[0] == "sample":
        o = sampling_workload(random.Random(src[1]))
        o["sid"] = "sample:%d" % src[1]
        return o
    if src[0] == "gen":
        rng = random.Random(src[1])
        w = gen.generate(rng, viral=rng.random() < 0.5, rows=rng.choice([2, 3, 3, 4, 4, 5, 6, 8, 12]),
                         n_statements=rng.choice([1, 2, 3, 4]), persist_all=rng.random() < 0.5,
                         group_focus=rng.random() < 0.5)
        o = gen.as_op(w, kwargs={"return_only_persistent": False})
        o["sid"] = "gen:%d" % src[1]
        return o
    o = corpus.as_op(src[1], kwargs={"return_only_persistent": False})
    o["sid"] = "corpus:" + src[1]["id"]
    return o


def task_batch(task):
    from ..parser_standin import shim

    out = []
    quick = task["quick"]
    for src in task["items"]:
        op = _make_op(src)
        shim.preparse([op["script"] + "\n", op["script"]])
        ok, why = determined.fully_determined(op["script"], op["structures"])
        if not ok:
            out.append({"sid": op["sid"], "skipped": why})
            continue
        rng = random.Random(hash(op["sid"]) & 0xFFFFFF if src[0] != "gen" else src[1] ^ 0x5A5A)
        if src[0] != "gen":
            rng = random.Random(sum(ord(c) for c in op["sid"]) * 7919 + task["seed"])
        variants = _variants_for(op, rng, quick)
        res = proc.in_child(_child, op, variants, timeout=120 + 20 * len(variants))
        recs = []
        nontrivial = []
        for var, r in zip(variants, res["variants"]):
            moved = sum(1 for (_t, n) in r["permuted"] if n >= 2) or (1 if var["type"].startswith("carrier") else 0)
            if moved:
                nontrivial.append("%s|%s" % (op["sid"], repr(sorted(var.items()))[:200]))
            if r["diff"]:
                recs.append({"invariant": "result-depends-on-input-order" if var["type"] != "carrier_cols" else "result-depends-on-input-column-order",
                             "observed": "%s variant: %s" % (var["type"], r["diff"]), "variant": var})
        out.append({"sid": op["sid"], "valid": res["ref"][0] == "ok", "n_variants": len(res["variants"]),
                    "recs": recs, "op": op if recs else None, "nontrivial": nontrivial,
                    "viral": bool((op.get("meta") or {}).get("viral")),
                    "sample": {"sid": op["sid"], "script": op["script"][:300], "variants": [v["type"] for v in variants]}})
    return out


def _still_fails_factory(var, invariant):
    def still_fails(op):
        res = proc.in_child(_child, op, [var], timeout=120)
        return bool(res["variants"] and res["variants"][0]["diff"])
    return still_fails


def task_minimise(task):
    op, var = task["op"], task["variant"]
    from ..parser_standin import shim

    def sf(o):
        shim.preparse([o["script"] + "\n", o["script"]])
        return _still_fails_factory(var, task["invariant"])(o)

    if var["type"] == "explicit":
        return {"op": op}   # explicit rowid permutations are tied to the row count
    if (op.get("meta") or {}).get("sampling"):
        # the row count is the point of these workloads: shrink the script only
        return {"op": minimise.shrink_op(op, sf, max_tests=6, shrink_rows=False)}
    return {"op": minimise.shrink_op(op, sf, max_tests=60)}


def run(ctx):
    rng = random.Random(ctx.seed * 1000003 + 33)
    quick = ctx.tier == "quick"
    n_gen = 700 if quick else 30000
    cps = [e for e in corpus.discover() if 0 < e["bytes"] < (20000 if quick else 300000)]
    n_corpus = 150 if quick else len(cps)
    items = [("gen", rng.randrange(1 << 30)) for _ in range(n_gen - n_gen // 4)]
    items += [("dag", rng.randrange(1 << 30)) for _ in range(n_gen // 4)]     # joins, UDOs, hierarchy / datapoint rulesets, set operators
    items += [("corpus", e) for e in rng.sample(cps, min(n_corpus, len(cps)))]
    rng.shuffle(items)
    ts = [("tseries", rng.randrange(1 << 30)) for _ in range(60 if quick else 2500)]
    ts = [x for tri in zip(ts, [("dates", rng.randrange(1 << 30)) for _ in range(len(ts))],
                           [("analytic", rng.randrange(1 << 30)) for _ in range(len(ts))]) for x in tri]
    items = [("sample", rng.randrange(1 << 30)) for _ in range(6 if quick else 200)] + ts[:30] + items
    for i, x in enumerate(ts[30:]):
        items.insert(min(len(items), 40 + i * 4), x)
    size = 4
    heavy = [it for it in items if it[0] == "sample"]
    light = [it for it in items if it[0] != "sample"]
    tasks = [{"items": [it], "quick": quick, "seed": ctx.seed} for it in heavy] + \
            [{"items": light[i:i + size], "quick": quick, "seed": ctx.seed} for i in range(0, len(light), size)]
    done = ctx.map("task_batch", tasks, budget_s=ctx.budget_s * 0.85, min_tasks=24)
    violations, nontrivial, samples = [], set(), []
    n_eval = n_valid = n_skipped = n_scripts = n_viral = 0
    skipped_why = {}
    for _t, res in done:
        for r in res:
            n_scripts += 1
            if "skipped" in r:
                n_skipped += 1
                skipped_why[r["skipped"]] = skipped_why.get(r["skipped"], 0) + 1
                continue
            n_valid += int(r["valid"])
            n_viral += int(r["viral"] and r["valid"])
            n_eval += r["n_variants"] + 1
            nontrivial.update(r["nontrivial"] if r["valid"] else [])
            if r["valid"] and len(samples) < 3:
                samples.append(r["sample"])
            for rec in r["recs"]:
                viral = r["viral"]
                violations.append({"invariant": rec["invariant"],
                                   "signature": {"invariant": rec["invariant"], "viral_attribute": viral},
                                   "observed": rec["observed"],
                                   "scenario": {"sid": r["sid"], "op": r["op"], "variant": rec["variant"]}, "digest": ""})
    # minimise one representative per signature
    seen, todo = set(), []
    for v in violations:
        key = repr(sorted(v["signature"].items()))
        if key not in seen:
            seen.add(key)
            todo.append(v)
    if todo:
        mins = ctx.map("task_minimise", [{"op": v["scenario"]["op"], "variant": v["scenario"]["variant"], "invariant": v["invariant"], "idx": i}
                                         for i, v in enumerate(todo[:4])], budget_s=120.0, force=True)
        for (t, r) in mins:
            todo[t["idx"]]["scenario"]["op"] = r["op"]
    violations = todo
    coverage = {
        "evaluations": n_eval,
        "distinct_nontrivial": len(nontrivial),
        "rule": "one evaluation = one real run(); each fully-determined valid script is run unpermuted and then under seeded storage-order "
                "permutations of its input tables (explicit rowid permutations, exhaustive up to 4 rows in quick / 5 in thorough for one input; hash-order salts otherwise), "
                "a carrier row shuffle and a carrier column shuffle. distinct_nontrivial = distinct (script, variant) pairs in which at least one input with >= 2 rows was actually reordered.",
        "samples": samples or [{"note": "none"}],
        "scripts": n_scripts, "valid_scripts": n_valid, "valid_scripts_with_viral_attributes": n_viral,
        "scripts_excluded_not_fully_determined": n_skipped, "exclusion_reasons": skipped_why,
        "tasks_skipped_by_budget": getattr(ctx, "last_skipped", 0),
        "nondeterminism_injected": {"storage_order_permutations_and_carrier_shuffles": len(nontrivial)},
    }
    return {"level": "exploration", "coverage": coverage, "violations": violations,
            "assumptions": [
                "parser is a stand-in; everything else is real code",
                "only input tables are permuted (intermediates are C15's knob); ordering inside a single SQL statement is DuckDB's own and is not controlled",
                "floating-point cells are compared bit-exactly (VERIF_FLOAT_TOL=0), like everything else",
            ]}


def replay(rec):
    sc = rec["scenario"]
    op, var = sc["op"], sc["variant"]
    from ..parser_standin import shim

    shim.preparse([op["script"] + "\n", op["script"]])
    res = proc.in_child(_child, op, [var], timeout=300)
    out = []
    for r in res["variants"]:
        if r["diff"]:
            out.append({"invariant": rec["invariant"], "observed": "%s variant: %s" % (var["type"], r["diff"]), "digest": ""})
    return out
