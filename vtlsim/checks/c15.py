"""C15 (in part) — results are deterministic and independent of engine configuration.

For fully-determined workloads the datapoint sets returned by run() must be the same
(a) on repeated runs in one process, (b) in a fresh interpreter under another PYTHONHASHSEED,
(c) under per-run randomised engine knobs, changing between the runs of one process,
(d) under seeded storage-order nondeterminism of every materialised table (inputs and
intermediates) injected at the connection seam.  DuckDB's own worker-thread schedules are
outside the simulator and are not claimed."""
import copy
import json
import os
import random
import subprocess
import sys

from .. import corpus, determined, gen, minimise, ops, paths, proc
from ..seams import SIM

# relative tolerance for floating-point cells (VERIF_FLOAT_TOL overrides; 0 = bit-exact)
FLOAT_TOL = float(__import__("os").environ.get("VERIF_FLOAT_TOL", "0"))
BUDGET = {"quick": 150.0, "thorough": 3300.0}


def knob_vector(rng, big):
    env = {}
    if rng.random() < 0.6:
        env["VTL_USE_IN_MEMORY_DB"] = rng.choice(["0", "0", "false", "1", "true", "TRUE"])
    if rng.random() < 0.5:
        env["VTL_MEMORY_LIMIT"] = rng.choice(["80%", "64MB", "1GB", "2000000000", "50%", "256MB"])
    if rng.random() < 0.4:
        env["VTL_TEMP_DIRECTORY"] = rng.choice(["fresh_%d", "nested/a/b_%d", "with space_%d", "ünï cödé_%d", "trailing_%d/", "dots/../up_%d", "q'uote_%d"]) % rng.randrange(1000)
    if rng.random() < 0.3:
        env["VTL_MAX_TEMP_DIRECTORY_SIZE"] = "1GB"
    if not big and rng.random() < 0.6:
        env["VTL_THREADS"] = rng.choice(["1", "2", "4", "16"])
    var = {"env": env}
    if rng.random() < 0.5:
        var["permute"] = rng.randrange(1, 1 << 30)
    return var


def big_workload(rng, nrows):
    """A few statements over one or two large inputs (reaches file-backed storage, memory limit
    and spill paths); VTL_THREADS stays 1 for these (DESIGN 5.2)."""
    comps = [{"name": "Id_1", "type": "Integer", "role": "Identifier", "nullable": False},
             {"name": "Id_2", "type": "String", "role": "Identifier", "nullable": False},
             {"name": "Me_1", "type": "Number", "role": "Measure", "nullable": True},
             {"name": "Me_2", "type": "Integer", "role": "Measure", "nullable": True}]
    cols = [c["name"] for c in comps]

    def rows(n, off):
        r = random.Random(rng.random())
        return [[i + off, "ABC"[i % 3], (None if i % 97 == 0 else float(r.randrange(-1000, 1000)) / 4.0), r.randrange(100)] for i in range(n)]

    data = {"DS_1": {"kind": rng.choice(["parquet_df", "df"]), "columns": cols, "rows": rows(nrows, 0)},
            "DS_2": {"kind": rng.choice(["parquet_df", "df"]), "columns": cols, "rows": rows(nrows // 2, nrows // 4)}}
    stmts = rng.sample([
        "R_1 <- DS_1 + DS_2;", "R_2 <- DS_1[aggr Me_1 := sum(Me_1), Me_2 := max(Me_2) group by Id_2];",
        "R_3 <- union(DS_1, DS_2)[filter Me_2 > 50];", "R_4 := DS_1[calc Me_3 := Me_1 * Me_2];", "R_5 <- R_4[aggr Me_3 := avg(Me_3) group by Id_2];",
        "R_6 <- inner_join(DS_1 as a, DS_2 as b rename a#Me_1 to A1, b#Me_1 to B1, a#Me_2 to A2, b#Me_2 to B2);",
        "R_7 <- setdiff(DS_1, DS_2);", "R_8 <- count(DS_1 group by Id_2);", "R_9 <- DS_1[filter Me_1 > 0][calc Me_1 := Me_1 / 3];",
    ], rng.choice([2, 3, 4]))
    if any("R_5" in s for s in stmts) and not any(s.startswith("R_4") for s in stmts):
        stmts.append("R_4 := DS_1[calc Me_3 := Me_1 * Me_2];")
    return {"api": "run", "script": "\n".join(stmts) + "\n", "structures": {"datasets": [{"name": n, "DataStructure": comps} for n in ("DS_1", "DS_2")]},
            "data": data, "kwargs": {}, "env": {}, "output_folder": False, "meta": {"big": nrows}}


def bigframe_workload(rng, nrows):
    """One pandas input that is large *relative to a small hard memory limit* (tens of MB of object columns), with a Date
    measure in which a few values carry a time of day and a String measure with null-looking tokens: any alternative
    load / staging / spill path chosen from the input's size and the memory limit must keep the values."""
    comps = [{"name": "Id_1", "type": "Integer", "role": "Identifier", "nullable": False},
             {"name": "Me_d", "type": "Date", "role": "Measure", "nullable": True},
             {"name": "Me_s", "type": "String", "role": "Measure", "nullable": True},
             {"name": "Me_n", "type": "Number", "role": "Measure", "nullable": True}]
    cols = [c["name"] for c in comps]
    toks = ["NA", "null", "N/A", "nan", "value-%d", "x" * 40, "00123", "TRUE"]
    # the odd rows sit where the (small) results below keep them
    odd = set(rng.sample([i for i in range(nrows) if (i % 1000) / 8.0 < 5 and i % 101], 20)) | set(rng.sample(range(nrows - 2000, nrows), 5))
    rows = [[i + 1, ("2020-02-02 01:01:01" if i in odd else "2020-%02d-%02d" % (1 + i % 12, 1 + i % 28)),
             (toks[i % len(toks)] % i if "%d" in toks[i % len(toks)] else toks[i % len(toks)]), (None if i % 101 == 0 else (i % 1000) / 8.0)]
            for i in range(nrows)]
    stmts = rng.sample(["R_f <- DS_1[filter Me_n < 5];", "R_x <- DS_1[filter Me_n < 2][calc Me_y := cast(Me_d, string)][keep Me_y, Me_s];",
                        "R_t <- DS_1[filter Id_1 > %d];" % (nrows - 2000)], rng.choice([1, 2]))
    return {"api": "run", "script": "\n".join(stmts) + "\n", "structures": {"datasets": [{"name": "DS_1", "DataStructure": comps}]},
            "data": {"DS_1": {"kind": "df", "columns": cols, "rows": rows}}, "kwargs": {}, "env": {}, "output_folder": False,
            "meta": {"big": nrows, "bigframe": True}}


def _with(op, var):
    o = dict(op)
    o["env"] = dict(var.get("env") or {})
    return o


def _exec(op, var, sb, n):
    SIM.reset(seed=n, permute=var.get("permute"), perm_intermediates=bool(var.get("permute")))
    SIM.begin_op(0)
    oc = ops.execute_op(_with(op, var), sb, n)
    return oc, len(SIM.permuted)


FOREIGN_ST = {"datasets": [{"name": "F_1", "DataStructure": [
    {"name": "Id_1", "type": "Integer", "role": "Identifier", "nullable": False},
    {"name": "Id_2", "type": "Time_Period", "role": "Identifier", "nullable": False},
    {"name": "Me_1", "type": "Number", "role": "Measure", "nullable": True}]}]}


def foreign_op(fmt, width=None):
    """An unrelated run executed between the runs of a sequence: another script, another
    time-period output format, optionally other decimal settings.  Run k must not depend on it."""
    env = {}
    if width:
        env = {"VTL_DUCKDB_DECIMAL_WIDTH": str(width), "OUTPUT_NUMBER_SIGNIFICANT_DIGITS": "8"}
    return {"api": "run", "script": 'F_s <- cast(cast("2020Q1", time_period), string); F_r <- F_1[calc Me_s := cast(Id_2, string)]; F_n <- F_1 * 1.123456789;\n',
            "structures": FOREIGN_ST, "data": {"F_1": {"kind": "df", "columns": ["Id_1", "Id_2", "Me_1"], "rows": [[1, "2020Q1", 1.5], [2, "2021M03", 2.25]]}},
            "kwargs": {"time_period_output_format": fmt}, "env": env, "output_folder": False}


def _sequence_child(op, variants):
    sb = ops.Sandbox("c15")
    try:
        out = []
        for i, var in enumerate(variants):
            if "foreign" in var:
                SIM.reset(seed=i)
                fo = ops.execute_op(foreign_op(*var["foreign"]), sb, 1000 + i)
                out.append({"outcome": ("exc", "foreign", None, False, "", None, None) if fo[0] == "exc" else ("foreign",), "permuted": 0, "leftovers": []})
                continue
            oc, nperm = _exec(op, var, sb, i)
            # lossless but compact: keep the outcome only if needed by the judge (done in parent)
            out.append({"outcome": oc, "permuted": nperm, "leftovers": [p for p in sb.leftovers() if "duckdb_tmp_" in p][:2]})
        return out
    finally:
        sb.cleanup()


def _make_op(src):
    if src[0] == "gen":
        rng = random.Random(src[1])
        w = gen.generate(rng, rows=rng.choice([3, 5, 8, 12, 20]), n_statements=rng.choice([1, 2, 3, 4, 5]),
                         group_focus=rng.random() < 0.3)
        kw = {"return_only_persistent": rng.random() < 0.5}
        if w["meta"]["time_period"]:
            kw["time_period_output_format"] = rng.choice(["vtl", "sdmx_reporting", "natural"])
        o = gen.as_op(w, kwargs=kw, output_folder=rng.random() < 0.2)
        o["sid"] = "gen:%d" % src[1]
        return o, False
    if src[0] == "bait":
        # constructs in which an implementation could iterate a set / dict of names or SQL fragments: repeated operands,
        # many operands, many components, many independent statements (iteration order depends on PYTHONHASHSEED)
        from .. import gen_dag

        rng = random.Random(src[1])
        names = ["DS_1", "DS_2", "DS_3"]
        a, b, c = rng.sample(names, 3)
        stmts = rng.sample([
            "U_1 <- union(%s, %s, %s);" % (a, b, a), "U_2 <- union(%s, %s, %s, %s);" % (a, b, c, b), "U_3 <- union(%s[calc Me_1 := Me_1 + 1], %s, %s[calc Me_1 := Me_1 + 1]);" % (a, b, a),
            "U_4 <- intersect(%s, %s, %s);" % (a, b, c), "U_5 <- setdiff(union(%s, %s), %s);" % (a, b, c), "U_6 <- symdiff(%s, union(%s, %s, %s));" % (a, b, c, b),
            "J_1 <- inner_join(%s as p, %s as q, %s as r calc Me_1 := p#Me_1 + q#Me_1 * r#Me_1 keep Me_1);" % (a, b, c),
            "J_2 <- full_join(%s as p, %s as q, %s as r rename p#Me_1 to M_p, q#Me_1 to M_q, r#Me_1 to M_r);" % (c, b, a),
            "X_1 <- exists_in(%s, %s, all);" % (a, c), "N_1 <- nvl(%s, 0) + nvl(%s, 0) - nvl(%s, 0) + nvl(%s, 0);" % (a, b, a, c),
            "I_1 <- if %s#Me_1 > 2 then union(%s, %s) else union(%s, %s);" % (a, b, a, a, b),
            "A_1 <- %s[aggr Me_s := sum(Me_1), Me_a := avg(Me_1), Me_x := max(Me_1), Me_n := min(Me_1), Me_c := count() group by Id_2];" % a,
        ], rng.choice([2, 3, 4]))
        st = {"datasets": [{"name": n, "DataStructure": gen_dag.COMPS} for n in names]}
        data = {n: {"kind": "df", "columns": gen_dag.COLS, "rows": gen_dag._rows(random.Random(src[1] + i), 7)} for i, n in enumerate(names)}
        o = {"api": "run", "script": "\n".join(stmts) + "\n", "structures": st, "data": data, "kwargs": {}, "env": {}, "output_folder": False,
             "meta": {"bait": True}, "sid": "bait:%d" % src[1]}
        return o, False
    if src[0] == "dag":
        from .. import gen_dag

        rng = random.Random(src[1])
        w = gen_dag.generate(rng, rows=rng.choice([3, 5, 8]))
        o = gen.as_op(w, kwargs={"return_only_persistent": rng.random() < 0.5})
        o["sid"] = "dag:%d" % src[1]
        return o, False
    if src[0] == "tseries":
        from . import c33

        o = c33.timeseries_workload(random.Random(src[1]))
        o["sid"] = "tseries:%d" % src[1]
        return o, False
    if src[0] == "sample":
        # rows homogeneous except for a few odd ones (see c33.sampling_workload): anything the engine decides
        # from a bounded probe of a stored table depends on the table's physical order
        from . import c33

        o = c33.sampling_workload(random.Random(src[1]))
        o["sid"] = "sample:%d" % src[1]
        return o, True
    if src[0] == "bigframe":
        rng = random.Random(src[1])
        o = bigframe_workload(rng, src[2])
        o["sid"] = "bigframe:%d:%d" % (src[1], src[2])
        return o, True
    if src[0] == "big":
        rng = random.Random(src[1])
        o = big_workload(rng, src[2])
        o["sid"] = "big:%d:%d" % (src[1], src[2])
        return o, True
    o = corpus.as_op(src[1], kwargs={"return_only_persistent": False})
    o["sid"] = "corpus:" + src[1]["id"]
    return o, False


def judge(ref, res, variants):
    viols = []
    stats = {"ok": 0, "raised": 0, "nontrivial": 0}
    for i, (var, r) in enumerate(zip(variants, res)):
        oc = r["outcome"]
        if oc[0] == "foreign" or "foreign" in var:
            continue
        if oc[0] == "exc":
            stats["raised"] += 1
            continue
        stats["ok"] += 1
        if var.get("env") or r["permuted"]:
            stats["nontrivial"] += 1
        d = ops.diff_outcomes(ref, oc, tol=FLOAT_TOL)
        if d:
            knobs = sorted((var.get("env") or {}).keys()) + (["storage-order"] if var.get("permute") else [])
            viols.append((i, d, knobs))
    return viols, stats


def task_batch(task):
    from ..parser_standin import shim

    out = []
    for src in task["items"]:
        op, big = _make_op(src)
        fs = foreign_op("vtl")["script"]
        shim.preparse([op["script"] + "\n", op["script"], fs, fs + "\n"])
        ok, why = determined.fully_determined(op["script"], op["structures"])
        if not ok:
            out.append({"sid": op["sid"], "skipped": why})
            continue
        rng = random.Random((src[1] if src[0] != "corpus" else sum(map(ord, op["sid"]))) ^ 0xC15)
        n = rng.choice([2, 3, 4, 6]) if not big else 3
        variants = [knob_vector(rng, big) for _ in range(n)]
        if big:
            # results larger than one hand-over batch of the engine: always one run under a hard
            # memory limit whose tables are stored in a non-trivial physical layout
            variants[0] = {"env": {"VTL_MEMORY_LIMIT": rng.choice(["24MB", "32MB"]) if (op.get("meta") or {}).get("bigframe") else rng.choice(["256MB", "1GB", "2000000000"]),
                                   "VTL_USE_IN_MEMORY_DB": rng.choice(["0", "1"])}, "permute": rng.randrange(1, 1 << 30)}
        variants.insert(rng.randrange(len(variants) + 1), {"env": {}})      # a repeated default run somewhere
        if rng.random() < 0.6:                                               # an unrelated run in between
            variants.insert(rng.randrange(1, len(variants) + 1),
                            {"foreign": [rng.choice(["sdmx_reporting", "natural", "sdmx_gregorian", "vtl"]), rng.choice([None, None, 20])]})
        variants.append({"env": {}})                                         # and always at the end
        ref = proc.in_child(_sequence_child, op, [{"env": {}}], timeout=600)[0]["outcome"]
        if ref[0] != "ok":
            out.append({"sid": op["sid"], "invalid": True})
            continue
        res = proc.in_child(_sequence_child, op, variants, timeout=300 + 120 * len(variants))
        viols, stats = judge(ref, res, variants)
        recs = []
        for (i, d, knobs) in viols:
            # attribute: the variant alone in a pristine process
            alone = proc.in_child(_sequence_child, op, [variants[i]], timeout=600)[0]["outcome"]
            da = ops.diff_outcomes(ref, alone, tol=FLOAT_TOL) if alone[0] == "ok" else None
            if da:
                recs.append({"invariant": "result-depends-on-configuration", "observed": "knobs %s: %s" % (variants[i], da),
                             "signature": {"knobs": knobs}, "variants": [variants[i]]})
            else:
                recs.append({"invariant": "run-depends-on-earlier-runs", "observed": "run %d of the sequence (knobs %s) differs: %s" % (i, variants[i], d),
                             "signature": {"knobs": knobs}, "variants": variants[: i + 1]})
        out.append({"sid": op["sid"], "stats": stats, "recs": recs, "op": op if recs else None, "big": big,
                    "knob_keys": sorted({k for v in variants for k in (v.get("env") or {})}),
                    "sample": {"sid": op["sid"], "script": op["script"][:200], "variants": variants[:3]}})
    return out


def _hashseed_batch(items_json):
    """Runs in a FRESH interpreter (another PYTHONHASHSEED): default-config outcomes."""
    items = json.loads(items_json)
    from ..parser_standin import shim

    out = {}
    for src in items:
        op, _big = _make_op(tuple(src) if src[0] != "corpus" else ("corpus", src[1]))
        shim.preparse([op["script"] + "\n", op["script"]])
        out[op["sid"]] = repr(proc.in_child(_sequence_child, op, [{"env": {}}], timeout=600)[0]["outcome"])
    return out


def task_hashseed(task):
    """Compare default-config outcomes of this (PYTHONHASHSEED=0) worker with a fresh interpreter
    started under another hash seed."""
    from ..parser_standin import shim

    items = task["items"]
    mine = {}
    for src in items:
        op, _ = _make_op(src)
        shim.preparse([op["script"] + "\n", op["script"]])
        mine[op["sid"]] = (repr(proc.in_child(_sequence_child, op, [{"env": {}}], timeout=600)[0]["outcome"]), op)
    env = dict(os.environ)
    env["PYTHONHASHSEED"] = str(task["hashseed"])
    code = ("import sys, json; sys.path.insert(0, %r); from vtlsim import bootstrap; bootstrap.boot(); "
            "from vtlsim.checks import c15; print('OUT ' + json.dumps(c15._hashseed_batch(%r)))" % (paths.VERIF, json.dumps(items)))
    r = subprocess.run([sys.executable, "-c", code], env=env, capture_output=True, text=True, timeout=1200, cwd=paths.VERIF)
    theirs = None
    for line in r.stdout.splitlines():
        if line.startswith("OUT "):
            theirs = json.loads(line[4:])
    if theirs is None:
        raise proc.HarnessError("fresh interpreter failed: " + (r.stdout + r.stderr)[-1500:])
    recs = []
    n = 0
    for sid, (mine_repr, op) in mine.items():
        n += 1
        if theirs.get(sid) != mine_repr:
            recs.append({"sid": sid, "invariant": "result-depends-on-hash-seed", "observed": "PYTHONHASHSEED=0 vs %s: %s | %s" % (
                task["hashseed"], mine_repr[:300], str(theirs.get(sid))[:300]), "signature": {"knobs": ["PYTHONHASHSEED"]}, "op": op,
                "variants": [{"env": {}, "hashseed": task["hashseed"]}]})
    return {"compared": n, "recs": recs}


def task_minimise(task):
    op, variants, inv = task["op"], task["variants"], task["invariant"]
    from ..parser_standin import shim

    if (op.get("meta") or {}).get("big") or (op.get("meta") or {}).get("sampling"):
        return {"op": op}

    def sf(o):
        shim.preparse([o["script"] + "\n", o["script"]])
        ref = proc.in_child(_sequence_child, o, [{"env": {}}], timeout=300)[0]["outcome"]
        if ref[0] != "ok":
            return False
        res = proc.in_child(_sequence_child, o, variants, timeout=600)
        v, _ = judge(ref, res, variants)
        return bool(v)

    return {"op": minimise.shrink_op(op, sf, max_tests=50)}


def run(ctx):
    rng = random.Random(ctx.seed * 1000003 + 15)
    quick = ctx.tier == "quick"
    n_gen = 500 if quick else 20000
    cps = [e for e in corpus.discover() if 0 < e["bytes"] < (20000 if quick else 400000)]
    n_corpus = 120 if quick else len(cps)
    items = [("gen", rng.randrange(1 << 30)) for _ in range(n_gen - n_gen // 3)]
    items += [("dag", rng.randrange(1 << 30)) for _ in range(n_gen // 3)]
    items += [("corpus", e) for e in rng.sample(cps, min(n_corpus, len(cps)))]
    bigs = [("big", rng.randrange(1 << 30), rng.choice([5000, 20000, 150000] if quick else [20000, 100000, 150000, 300000])) for _ in range(6 if quick else 120)]
    rng.shuffle(items)
    bigs = [("bigframe", rng.randrange(1 << 30), rng.choice([170000] if quick else [250000, 400000, 600000])) for _ in range(1 if quick else 20)] + bigs
    items = bigs + [("sample", rng.randrange(1 << 30)) for _ in range(4 if quick else 120)] + \
        [("tseries", rng.randrange(1 << 30)) for _ in range(12 if quick else 600)] + items
    size = 5
    heavy = [it for it in items if it[0] in ("big", "bigframe", "sample")]
    light = [it for it in items if it[0] not in ("big", "bigframe", "sample")]
    # heavy workloads one per task (so that they run side by side from the start), light ones in chunks
    tasks = [{"items": [it]} for it in heavy] + [{"items": light[i:i + size]} for i in range(0, len(light), size)]
    # hash-seed differential (fresh interpreters): a few batches
    baits = [("bait", rng.randrange(1 << 30)) for _ in range(24 if quick else 400)]
    hs_items = baits + [it for it in items if it[0] in ("gen", "dag")][: (24 if quick else 400)]
    items = baits[: (8 if quick else 100)] + items
    hs_tasks = [{"items": hs_items[i:i + 6], "hashseed": rng.choice([1, 7, 12345, 4242])} for i in range(0, len(hs_items), 6)]
    hs_done = ctx.map("task_hashseed", hs_tasks, budget_s=ctx.budget_s * 0.25, min_tasks=1)
    done = ctx.map("task_batch", tasks, budget_s=ctx.budget_s * 0.6, min_tasks=16)
    violations, samples, nontriv = [], [], 0
    n_eval = n_scripts = n_valid = n_skipped = n_raised = n_big = 0
    knob_hits = {}
    for _t, res in done:
        for r in res:
            n_scripts += 1
            if "skipped" in r:
                n_skipped += 1
                continue
            if r.get("invalid"):
                continue
            n_valid += 1
            n_big += int(r["big"])
            n_eval += r["stats"]["ok"] + r["stats"]["raised"] + 1
            n_raised += r["stats"]["raised"]
            nontriv += r["stats"]["nontrivial"]
            for k in r["knob_keys"]:
                knob_hits[k] = knob_hits.get(k, 0) + 1
            if len(samples) < 3:
                samples.append(r["sample"])
            for rec in r["recs"]:
                violations.append({"invariant": rec["invariant"], "signature": dict(rec["signature"], invariant=rec["invariant"]),
                                   "observed": rec["observed"], "scenario": {"sid": r["sid"], "op": r["op"], "variants": rec["variants"]}, "digest": ""})
    hs_compared = 0
    for _t, r in hs_done:
        hs_compared += r["compared"]
        for rec in r["recs"]:
            violations.append({"invariant": rec["invariant"], "signature": dict(rec["signature"], invariant=rec["invariant"]),
                               "observed": rec["observed"], "scenario": {"sid": rec["sid"], "op": rec["op"], "variants": rec["variants"]}, "digest": ""})
    seen, reps = set(), []
    for v in violations:
        key = (v["invariant"], json.dumps(v["signature"], sort_keys=True))
        if key not in seen:
            seen.add(key)
            reps.append(v)
    todo = [(i, v) for i, v in enumerate(reps) if v["invariant"] != "result-depends-on-hash-seed"][:4]
    if todo:
        mins = ctx.map("task_minimise", [{"op": v["scenario"]["op"], "variants": v["scenario"]["variants"], "invariant": v["invariant"], "idx": i}
                                         for i, v in todo], budget_s=150.0, force=True)
        for (t, r) in mins:
            reps[t["idx"]]["scenario"]["op"] = r["op"]
    coverage = {
        "evaluations": n_eval + hs_compared,
        "distinct_nontrivial": nontriv,
        "rule": "one evaluation = one real run(). Each fully-determined valid script is run in its default configuration in a pristine process (reference) and then, in one process, "
                "under a sequence of 2-6 seeded knob vectors (VTL_USE_IN_MEMORY_DB, VTL_MEMORY_LIMIT, VTL_TEMP_DIRECTORY, VTL_MAX_TEMP_DIRECTORY_SIZE, VTL_THREADS) optionally combined with "
                "storage-order permutation of every materialised table, with default-configuration runs interleaved and at the end. distinct_nontrivial = completed runs that had at least one "
                "non-default knob or at least one table actually permuted (each (script, knob vector, salt) is distinct by construction).",
        "samples": samples or [{"note": "none"}],
        "scripts": n_scripts, "valid_scripts": n_valid, "excluded_not_fully_determined": n_skipped,
        "runs_that_raised_under_a_knob": n_raised, "large_input_workloads": n_big,
        "scripts_exercising_knob": knob_hits,
        "fresh_interpreter_hash_seed_comparisons": hs_compared,
        "tasks_skipped_by_budget": getattr(ctx, "last_skipped", 0),
        "nondeterminism_injected": {"knob_vectors_or_permutations": nontriv},
    }
    return {"level": "exploration", "coverage": coverage, "violations": reps,
            "assumptions": [
                "NOT claimed: schedules of DuckDB's own worker threads; VTL_THREADS>1 is used only with inputs that fit one morsel, large inputs only with VTL_THREADS=1",
                "ordering inside one SQL statement is DuckDB's own and is not controlled",
                "floating-point cells are compared bit-exactly (VERIF_FLOAT_TOL=0): the engine stores Number as DECIMAL and was bit-reproducible on every workload tried; set VERIF_FLOAT_TOL to relax",
            ]}


def replay(rec):
    sc = rec["scenario"]
    op, variants = sc["op"], sc["variants"]
    from ..parser_standin import shim

    shim.preparse([op["script"] + "\n", op["script"]])
    if rec["invariant"] == "result-depends-on-hash-seed":
        src = (sc["sid"].split(":")[0], int(sc["sid"].split(":")[1]))
        r = task_hashseed({"items": [src], "hashseed": variants[0]["hashseed"]})
        return [{"invariant": x["invariant"], "observed": x["observed"], "digest": ""} for x in r["recs"]]
    ref = proc.in_child(_sequence_child, op, [{"env": {}}], timeout=600)[0]["outcome"]
    res = proc.in_child(_sequence_child, op, variants, timeout=900)
    viols, _ = judge(ref, res, variants)
    return [{"invariant": rec["invariant"], "observed": d, "digest": ""} for (_i, d, _k) in viols]
