"""C17 — concurrent API calls behave like sequential ones.

2-3 real caller threads under the seeded baton scheduler (sched.py); every engine line is a
pre-emption point (opcode level at shared-state lines); engine locks are simulated.  Each
call's outcome must equal the outcome of the same call executed alone in a pristine
process; no parse-tree use-after-free hazard, no deadlock, no hang, no connection left open."""
import copy
import gc
import hashlib
import json
import random

from .. import corpus, gen, ops, proc, sched
from ..seams import SIM

BUDGET = {"quick": 150.0, "thorough": 3300.0}

TP_STRUCT = {"datasets": [{"name": n, "DataStructure": [
    {"name": "Id_1", "type": "Integer", "role": "Identifier", "nullable": False},
    {"name": "Id_2", "type": "Time_Period", "role": "Identifier", "nullable": False},
    {"name": "Me_1", "type": "Number", "role": "Measure", "nullable": True},
    {"name": "Me_2", "type": "Number", "role": "Measure", "nullable": True}]} for n in ("DS_1", "DS_2")]}
TP_DATA = {
    "DS_1": {"kind": "df", "columns": ["Id_1", "Id_2", "Me_1", "Me_2"],
             "rows": [[1, "2020Q1", 10.0, 1.0], [2, "2020Q2", None, 2.0], [3, "2021M3", 30.0, 0.0]]},
    "DS_2": {"kind": "df", "columns": ["Id_1", "Id_2", "Me_1", "Me_2"],
             "rows": [[1, "2020Q1", 5.0, 1.0], [2, "2020Q2", 6.0, 1.0], [4, "2021M3", 7.0, 1.0]]}}
V_STRUCT = {"datasets": [{"name": n, "DataStructure": [
    {"name": "Id_1", "type": "Integer", "role": "Identifier", "nullable": False},
    {"name": "Me_1", "type": "Number", "role": "Measure", "nullable": True},
    {"name": "VAt_1", "type": "String", "role": "Viral Attribute", "nullable": True}]} for n in ("DS_1", "DS_2")]}
V_DATA = {"DS_1": {"kind": "df", "columns": ["Id_1", "Me_1", "VAt_1"], "rows": [[1, 10.0, "A"], [2, 20.0, "B"], [3, 30.0, None]]},
          "DS_2": {"kind": "df", "columns": ["Id_1", "Me_1", "VAt_1"], "rows": [[1, 1.0, "B"], [2, 2.0, "A"], [3, 3.0, "C"]]}}
RULES = [
    'define viral propagation VP (variable VAt_1) is when "A" then "Z"; else "D" end viral propagation;\n',
    'define viral propagation S (variable VAt_1) is when "A" then "Q"; else "W" end viral propagation;\n',
    'define viral propagation M (variable VAt_1) is aggregate max end viral propagation;\n',
]


def _mk(api, script, structures=None, data=None, **kwargs):
    return {"api": api, "script": script, "structures": structures, "data": data, "kwargs": kwargs, "env": {}, "output_folder": False}


def fixed_calls():
    c = []
    for i, r in enumerate(RULES):
        c.append(("viral%d" % i, _mk("run", r + "DS_r <- DS_1 + DS_2; DS_s <- DS_1 * 2;", V_STRUCT, V_DATA)))
        c.append(("viral%d-sem" % i, _mk("semantic_analysis", r + "DS_r <- DS_1 + DS_2;", V_STRUCT)))
    c.append(("viral-norule", _mk("run", "DS_r <- DS_1[calc Me_2 := Me_1 * 2];", V_STRUCT, V_DATA)))
    for fmt in ("vtl", "sdmx_reporting", "sdmx_gregorian", "natural"):
        c.append(("tp-" + fmt, _mk("run", "DS_r <- DS_1[filter Id_1 <> 2]; DS_s <- DS_2 * 2;", TP_STRUCT, TP_DATA,
                                   time_period_output_format=fmt)))
    for fmt in ("vtl", "sdmx_reporting", "natural"):
        c.append(("tpcast-" + fmt, _mk("run", 'S_1 <- cast(cast("2020Q1", time_period), string); DS_r <- DS_1[calc Me_s := cast(Id_2, string)];',
                                       TP_STRUCT, TP_DATA, time_period_output_format=fmt)))
    # operators whose semantic validation keeps per-call scratch values on the operator *class*
    # (found by sched.shared_names()): pairs of calls that need different values of that scratch
    for nm, sc in (("opcls-round0", "R <- round(DS_1);"), ("opcls-round2", "R <- round(DS_1, 2);"),
                   ("opcls-trunc0", "R <- trunc(DS_1);"), ("opcls-trunc1", "R <- trunc(DS_1, 1);"),
                   ("opcls-join-a", 'R <- inner_join(DS_1 as a, DS_2[sub Id_1 = 1] as b rename a#Me_1 to A1, b#Me_1 to B1, a#Me_2 to A2, b#Me_2 to B2);'),
                   ("opcls-join-b", 'R <- inner_join(DS_1[sub Id_1 = 1] as a, DS_2 as b rename a#Me_1 to A1, b#Me_1 to B1, a#Me_2 to A2, b#Me_2 to B2);'),
                   ("opcls-ljoin-a", 'R <- left_join(DS_1 as a, DS_2[sub Id_1 = 1][rename Me_1 to Me_3, Me_2 to Me_4] as b);'),
                   ("opcls-ljoin-b", 'R <- left_join(DS_2[sub Id_1 = 1][rename Me_1 to Me_3, Me_2 to Me_4] as b, DS_1[sub Id_1 = 1] as a);'),
                   ("opcls-an-num", "R <- sum(DS_1 over (partition by Id_1 order by Id_2));"),
                   ("opcls-an-int", "R <- sum(DS_1[calc Me_1 := cast(Me_1, integer), Me_2 := cast(Me_2, integer)] over (partition by Id_1 order by Id_2));"),
                   ("opcls-an-cnt", "R <- count(DS_1 over (partition by Id_1 order by Id_2));"),
                   ("opcls-fts-a", "R <- fill_time_series(DS_1, all);"), ("opcls-fts-b", "R <- fill_time_series(DS_2[drop Me_2], single);"),
                   ("opcls-agg-int", "R <- sum(DS_1[calc Me_1 := cast(Me_1, integer), Me_2 := cast(Me_2, integer)] group by Id_1);"),
                   ("opcls-agg-num", "R <- avg(DS_1 group by Id_1);")):
        c.append((nm + "-sem", _mk("semantic_analysis", sc, TP_STRUCT)))
        if "fts" not in nm:
            c.append((nm + "-run", _mk("run", sc, TP_STRUCT, TP_DATA)))
    c.append(("virt-if", _mk("run", "A <- if DS_1#Me_1 > 5 then DS_1 else DS_2; B <- nvl(DS_1[keep Me_1], 0) + DS_2[keep Me_1];", TP_STRUCT, TP_DATA)))
    c.append(("virt-join", _mk("run", "C <- inner_join(DS_1 as d1, DS_2 as d2 rename d1#Me_1 to M1, d2#Me_1 to M2, d1#Me_2 to N1, d2#Me_2 to N2);", TP_STRUCT, TP_DATA)))
    c.append(("virt-check", _mk("run", "D <- check(DS_1#Me_1 > DS_2#Me_1 errorcode \"e\" errorlevel 1 imbalance DS_1#Me_1 - DS_2#Me_1);", TP_STRUCT, TP_DATA)))
    c.append(("div0", _mk("run", "D <- DS_1 / (DS_2 - DS_2);", TP_STRUCT, TP_DATA)))
    c.append(("sem-fail", _mk("semantic_analysis", "E <- DS_1 + DS_9;", TP_STRUCT)))
    c.append(("sem-fail2", _mk("semantic_analysis", "F <- DS_1; G <- F[keep Me_77];", TP_STRUCT)))
    c.append(("sem-ok", _mk("semantic_analysis", "A <- if DS_1#Me_1 > 5 then DS_1 else DS_2; B <- DS_1 + DS_2;", TP_STRUCT)))
    c.append(("pretty", _mk("prettify", "A <- if DS_1#Me_1 > 5 then DS_1 else DS_2; /* c1 */ B <- nvl(DS_1, 0) + DS_2; // tail\n")))
    c.append(("pretty2", _mk("prettify", "define operator f (x dataset) returns dataset is x * 2 end operator; R <- f(DS_1); /* z */")))
    # parse-only calls whose outcome carries the comment channel / positions of *their own* parse
    for i, txt in enumerate([
            "/* head A */\nDS_r <- DS_1 + DS_2; // after first A\n/* between A */ DS_s := DS_r * 2; /* tail A */",
            "// only line comment B\nDS_r <- DS_1;",
            "DS_r <- DS_1 /* inner C */ + DS_2;\n\n\n// far below C\n",
            "DS_x <- DS_2; /* D1 */ /* D2 */ DS_y <- DS_x[filter Me_1 > 1]; // D3",
            "define operator g (x dataset) /* sig E */ returns dataset is x * 3 end operator; // def E\nDS_r <- g(DS_1); // call E"]):
        c.append(("parse-pretty%d" % i, _mk("prettify", txt)))
        c.append(("parse-ast%d" % i, _mk("create_ast", txt)))
    c.append(("ast", _mk("create_ast", "A := DS_1[calc Me_3 := Me_1 + Me_2][filter Me_3 > 1]; B <- A + DS_2;")))
    # eval(): the semantic pass validates the routine's SQL against the operand tables of *this* call
    ev_a = _mk("semantic_analysis", 'DS_r <- eval(SQL_A(DS_1) language "SQL" returns dataset {identifier<integer> Id_1, measure<number> Me_2});', TP_STRUCT,
               external_routines={"name": "SQL_A", "query": "SELECT Id_1, Me_2 FROM DS_1;"})
    ev_b = _mk("semantic_analysis", 'DS_r <- eval(SQL_B(DS_1) language "SQL" returns dataset {identifier<integer> Id_1, measure<string> VAt_1});', V_STRUCT,
               external_routines={"name": "SQL_B", "query": "SELECT Id_1, VAt_1 FROM DS_1;"})
    c.append(("opcls-eval-a-sem", ev_a))
    c.append(("opcls-eval-b-sem", ev_b))
    c.append(("opcls-eval-a-run", dict(ev_a, api="run", data=TP_DATA)))
    c.append(("opcls-eval-b-run", dict(ev_b, api="run", data=V_DATA)))
    c.append(("validate", _mk("validate_dataset", "", TP_STRUCT, TP_DATA)))
    c.append(("validate-v", _mk("validate_dataset", "", V_STRUCT, V_DATA)))
    c.append(("gensdmx", dict(_mk("generate_sdmx", "define operator f (x dataset) returns dataset is x * 2 end operator; R <- f(DS_1); S <- R[filter Me_1 > 1];"),
                              kwargs={"agency_id": "MD", "id": "TS1"})))
    o = _mk("run", "DS_r <- DS_1[calc Me_3 := Me_1 / 3]; DS_s <- sum(DS_2 group by Id_1);", TP_STRUCT, TP_DATA)
    o["output_folder"] = True
    c.append(("run-files", o))
    o = _mk("run", "DS_r <- DS_1 * 1.123456789; DS_t <- DS_2[filter Id_1 > 1];", TP_STRUCT, TP_DATA, time_period_output_format="sdmx_reporting", output_format="parquet")
    o["output_folder"] = True
    c.append(("run-files-parquet", o))
    c.append(("syntax", _mk("create_ast", "A <- DS_1 +;")))
    c.append(("syntax2", _mk("run", "A <- DS_1 [ filter ;", TP_STRUCT, TP_DATA)))
    return c


def make_scenario(rng, corpus_ids=None, gen_pool=None):
    fc = fixed_calls()
    n_threads = rng.choice([2, 2, 2, 3])
    mode = rng.random()
    threads = []
    opfam = None
    for t in range(n_threads):
        n_calls = rng.choice([1, 1, 2, 3])
        calls = []
        for _ in range(n_calls):
            r = rng.random()
            if mode < 0.35:
                # contending viral / time-period calls
                pool = [x for x in fc if x[0].startswith(("viral", "tp-", "tpcast-"))]
                name, op = rng.choice(pool)
            elif mode < 0.5:
                # calls whose outcome embeds virtual names / the statement's output dataset
                pool = [x for x in fc if x[0].startswith(("sem-", "virt-", "div0"))]
                name, op = rng.choice(pool)
            elif mode < 0.58:
                # parse-only calls (cheap): the parser's 'last parse' state is the contended resource
                pool = [x for x in fc if x[0].startswith(("parse-", "pretty", "ast", "syntax", "gensdmx"))]
                name, op = rng.choice(pool)
            elif mode < 0.7:
                # calls that contend for the same operator class's scratch attributes
                if opfam is None:
                    opfam = rng.choice(["round", "trunc", "join", "ljoin", "an-", "fts", "agg", "eval", "eval"])
                fam = opfam
                pool = [x for x in fc if x[0].startswith("opcls-" + fam)]
                name, op = rng.choice(pool)
            elif r < 0.55:
                name, op = rng.choice(fc)
            elif r < 0.85 or not corpus_ids:
                s = rng.choice(gen_pool) if gen_pool else rng.randrange(1 << 30)
                g = random.Random(s)
                w = gen.generate(g, n_statements=g.choice([1, 2, 3]), rows=g.choice([2, 3, 4]), carriers=("df",))
                kw = {}
                if w["meta"]["time_period"]:
                    kw["time_period_output_format"] = g.choice(["vtl", "sdmx_reporting", "natural"])
                op = gen.as_op(w, api=g.choice(["run", "run", "run", "semantic_analysis"]), kwargs=kw)
                name = "gen:%d" % s
            else:
                e = rng.choice(corpus_ids)
                op = corpus.as_op(e, api=rng.choice(["run", "semantic_analysis", "prettify"]))
                name = "corpus:" + e["id"]
            calls.append({"name": name, "op": op})
        threads.append(calls)
    k = rng.random()
    if k < 0.3:
        strat = {"kind": "pct", "d": rng.choice([1, 2, 3])}
    elif k < 0.6:
        strat = {"kind": "random", "p": rng.choice([5e-4, 5e-3, 5e-2]), "p_shared": 0.5}
    elif k < 0.88:
        strat = {"kind": "rendezvous", "q": rng.choice([0.1, 0.3, 0.6]), "burst": rng.choice([20, 60, 200]), "p": 1e-3,
                 "same_line": rng.random() < 0.5}     # wait for another thread at the very same line (symmetric races) or anywhere in the file
    else:
        strat = {"kind": "phase", "p": 0.5}
    scn = {"threads": threads, "strategy": strat, "sched_seed": rng.randrange(1 << 30)}
    if rng.random() < 0.3:
        # file-backed sessions: whatever two overlapping runs share on disk becomes visible in their results
        scn["env"] = {"VTL_USE_IN_MEMORY_DB": "0"}
    return scn


def _op_key(op):
    return hashlib.sha256(json.dumps(op, sort_keys=True, default=str).encode()).hexdigest()


def _alone_child(op):
    """The call alone, in a pristine process, on one scheduler thread with the simulated locks
    (so that a call that blocks on a lock it already holds is a deterministic 'deadlock'
    outcome instead of a hung child)."""
    scn = {"threads": [[{"name": "alone", "op": op}]], "strategy": {"kind": "phase", "p": 0.0}, "sched_seed": 0}
    ch = _scenario_child(scn)
    if ch["failure"]:
        return ("sched-failure", ch["failure"][0], ch["failure"][1])
    return ch["results"]["T0"][0]


_alone_cache = {}


def alone(op):
    k = _op_key(op)
    if k not in _alone_cache:
        from ..parser_standin import shim

        sc = op.get("script")
        if sc is not None:
            shim.preparse([sc, sc + "\n"])
        _alone_cache[k] = proc.in_child(_alone_child, op, timeout=240)
    return _alone_cache[k]


def task_alone(task):
    """Phase 1: outcomes of distinct calls executed alone, each in its own pristine process."""
    return {k: alone(op) for k, op in task["ops"]}


def _scenario_child(scn, forced=None, est_steps=20000):
    """Execute the threads under the scheduler.  Returns outcomes per call and run facts."""
    from ..parser_standin import shim

    sb = ops.Sandbox("c17")
    try:
        SIM.reset(seed=scn["sched_seed"])
        SIM.thread_names = True
        ops.set_env({"env": dict(scn.get("env") or {})}, sb)
        s = sched.Sched(scn["sched_seed"], strategy=scn["strategy"], forced=forced, est_steps=est_steps)
        restore, sims = sched.install_sim_locks(s)
        shim.reset_hazards()
        results = {}
        prepared = []
        for ti, calls in enumerate(scn["threads"]):
            pl = []
            for ci, c in enumerate(calls):
                pl.append((c["op"], ops.materialise(c["op"], sb, ti * 10 + ci)))
            prepared.append(pl)

        def make_body(ti, pl):
            def body():
                out = []
                for (op, kw) in pl:
                    try:
                        ret = ops.call_api(op["api"], kw)
                        out.append(ops.norm_return(op["api"], ret, kw))
                    except sched._Abort:
                        raise
                    except BaseException as e:  # noqa: BLE001
                        out.append(ops.norm_exc(e))
                return out
            return body

        for ti, pl in enumerate(prepared):
            s.spawn("T%d" % ti, make_body(ti, pl))
        res = s.run(timeout=240)
        restore()
        failure = None
        if s.failure is not None:
            failure = (type(s.failure).__name__, str(s.failure)[:300])
        for n, r in res.items():
            if r is None:
                results[n] = None
            elif r[0] == "ok":
                results[n] = r[1]
            else:
                results[n] = [("exc", "HARNESS", None, False, repr(r[1])[:200], None, None)] if r[0] == "exc" else None
        gc.collect()
        open_conns = [] if failure else [c._database for c in SIM.live_open_connections()]
        idg, sdg = s.interleaving_digest()
        import os as _os
        shared_bn = {"%s:%d" % (_os.path.basename(f), ln) for f, lines in s.shared.items() for ln in lines}
        sw_shared = sum(1 for sw in s.switches if sw[3] in shared_bn or str(sw[3]).startswith("lock:"))
        return {"results": results, "failure": failure, "hazards": list(shim.HAZARDS)[:5], "open_conns": open_conns,
                "schedule": s.schedule(), "switch_where": [w for (_s, _f, _t, w, _o) in s.switches][:200], "steps": s.steps, "aligned_points": s.aligned_points,
                "thread_steps": {n: t["steps"] for n, t in s.threads.items()},
                "thread_lines": {n: t["lines"] for n, t in s.threads.items()},
                "hot_lines": {n: list(t["hot_lines"]) for n, t in s.threads.items()},
                "shared_events": s.shared_events, "switches_at_shared_state": sw_shared, "interleaving": idg, "shared_digest": sdg,
                "lock_acquisitions": sum(l.acquisitions for l in sims), "lock_contended": sum(l.contended for l in sims),
                "lock_kinds": sorted("%s:%s" % (l.name, "RLock" if l.reentrant else "Lock") for l in sims),
                "seam_digest": SIM.digest()}
    finally:
        sb.cleanup()


def _preparse(scn):
    from ..parser_standin import shim

    texts = []
    for calls in scn["threads"]:
        for c in calls:
            sc = c["op"].get("script")
            if sc is not None:
                texts += [sc, sc + "\n"]
    shim.preparse(texts)


def judge(scn, child):
    viols = []
    if child["failure"]:
        kind = child["failure"][0]
        inv = {"Deadlock": "deadlock", "StepCap": "hang-step-cap"}.get(kind)
        if inv is None:
            raise proc.HarnessError("scheduler failure: %s %s" % child["failure"])
        viols.append((inv, child["failure"][1], {}))
        return viols
    if child["hazards"]:
        viols.append(("parser-use-after-free", "parse tree of an older parse touched: %s" % (child["hazards"][:2],), {}))
    # (connections still open after the calls are reported in the evidence only: C17 speaks of what the calls
    # return; resources are C16's subject, and a change that keeps a process-wide connection on purpose would
    # otherwise be flagged for something the property does not state)
    for ti, calls in enumerate(scn["threads"]):
        got = child["results"].get("T%d" % ti)
        if got is None:
            viols.append(("thread-did-not-finish", "T%d" % ti, {}))
            continue
        for ci, c in enumerate(calls):
            ref = alone(c["op"])
            if ref[0] == "sched-failure":
                if ref[1] == "Deadlock":
                    viols.append(("deadlock", "call %s deadlocks even when executed alone: %s" % (c["name"], ref[2]), {"alone": True}))
                    continue
                raise proc.HarnessError("alone reference failed: %s" % (ref,))
            d = ops.diff_outcomes(ref, got[ci], tol=1e-9, compare_messages=True)
            if d:
                sig = {"call_kinds": sorted({_kind(x["op"]) for cl in scn["threads"] for x in cl}),
                       "message_only": d.startswith("exception message differs")}
                inv = "exception-message-differs-from-alone" if sig["message_only"] else "outcome-differs-from-alone"
                viols.append((inv, "T%d call %d (%s, %s): %s" % (ti, ci, c["name"], c["op"]["api"], d), sig))
    return viols


def _kind(op):
    sc = op.get("script") or ""
    if "define viral propagation" in sc:
        return "viral-rule"
    if (op.get("kwargs") or {}).get("time_period_output_format") not in (None, "vtl"):
        return "period-format"
    return op["api"]


def task_scenarios(task):
    out = []
    _alone_cache.update(task.get("alone") or {})
    for seed, scn in task["scenarios"]:
        _preparse(scn)
        for calls in scn["threads"]:
            for c in calls:
                alone(c["op"])
        child = proc.in_child(_scenario_child, scn, timeout=300)
        viols = judge(scn, child)
        rec = {"seed": seed, "steps": child["steps"], "switches": len(child["schedule"]), "interleaving": child["interleaving"],
               "shared_digest": child["shared_digest"], "strategy": scn["strategy"]["kind"], "lock_contended": child["lock_contended"],
               "lock_acquisitions": child["lock_acquisitions"], "shared_events": child["shared_events"],
               "sw_shared": child["switches_at_shared_state"], "open_conns": len(child["open_conns"]),
               "n_threads": len(scn["threads"]), "n_calls": sum(len(c) for c in scn["threads"]),
               "kinds": sorted({_kind(x["op"]) for cl in scn["threads"] for x in cl}), "viols": []}
        if viols:
            for (inv, obs, sig) in viols:
                rec["viols"].append({"invariant": inv, "observed": obs, "signature": dict(sig, invariant=inv),
                                     "scenario": scn, "schedule": child["schedule"], "digest": child["seam_digest"],
                                     "steps": child["steps"]})
        elif len(out) < 2:
            rec["sample"] = {"threads": [[c["name"] + ":" + c["op"]["api"] for c in cl] for cl in scn["threads"]],
                             "strategy": scn["strategy"], "switches": child["switch_where"][:12], "steps": child["steps"]}
        out.append(rec)
    return out


def sweep_pairs():
    """Ordered pairs of calls that contend for the same piece of process state (same family)."""
    fc = fixed_calls()
    fams = {}
    for name, op in fc:
        if name.startswith("opcls-"):
            key = "opcls-" + name.split("-")[1]
        elif name.startswith(("viral", "tp-", "tpcast-", "parse-", "pretty", "sem-", "virt-")):
            key = name.split("-")[0].rstrip("0123456789")
        else:
            continue
        fams.setdefault(key, []).append((name, op))
    pairs = []
    for key in sorted(fams):
        members = fams[key]
        for (na, a) in members:
            for (nb, b) in members:
                if na != nb:
                    pairs.append((key, na, a, nb, b))
    return pairs


def task_sweep(task):
    """Atomicity sweep for one ordered pair (A, B): B as a whole is inserted into A at every 'hot' line event of A
    (within sched.HOT_SPAN line events after A touched process-global state) and at a sample of the others; one
    pre-emption per run, so every run is one point of a finite, stated space."""
    fam, na, a, nb, b = task["pair"]
    _alone_cache.update(task.get("alone") or {})
    dry = {"threads": [[{"name": na, "op": a}]], "strategy": {"kind": "phase", "p": 0.0}, "sched_seed": 0}
    _preparse({"threads": [[{"name": na, "op": a}], [{"name": nb, "op": b}]]})
    alone(a)
    alone(b)
    d = proc.in_child(_scenario_child, dry, timeout=300)
    total = d["thread_lines"].get("T0", 0)
    hot = sorted(set(d["hot_lines"].get("T0", [])))
    rng = random.Random(task["seed"])
    cap = task["max_points"]
    hot_sel = hot if len(hot) <= int(cap * 0.8) else sorted(rng.sample(hot, int(cap * 0.8)))
    cold_pool = [k for k in range(1, total + 1) if k not in set(hot)]
    cold_sel = sorted(rng.sample(cold_pool, min(len(cold_pool), cap - len(hot_sel))))
    out = {"family": fam, "pair": [na, nb], "lines": total, "hot": len(hot), "points": 0, "hot_points": 0, "complete_hot": len(hot_sel) == len(hot), "viols": []}
    import time as _time

    order = hot_sel + cold_sel
    rng.shuffle(order)             # a wall-clock cap may stop the sweep early: no systematic blind spot at the end
    t_end = _time.time() + task.get("wall_s", 1e9)
    for k in order:
        if _time.time() > t_end:
            out["complete_hot"] = False
            break
        scn = {"threads": [[{"name": na, "op": a}], [{"name": nb, "op": b}]], "strategy": {"kind": "insert", "thread": "T0", "at_line": k}, "sched_seed": k}
        child = proc.in_child(_scenario_child, scn, timeout=300)
        out["points"] += 1
        out["hot_points"] += int(k in set(hot))
        viols = judge(scn, child)
        if viols:
            inv, obs, sig = viols[0]
            out["viols"].append({"invariant": inv, "observed": obs + " [single insertion of %s at line event %d of %s]" % (nb, k, na),
                                 "signature": dict(sig, invariant=inv, sweep=fam), "scenario": scn, "schedule": child["schedule"],
                                 "digest": child["seam_digest"], "steps": child["steps"]})
            break
    return out


def lockstep_scenarios():
    """The finite space of the lockstep phase: every fixed call against itself and against each other member of its
    contender family, x period in (1, 2, 3); calls of run() also with file-backed sessions."""
    fc = fixed_calls()
    same = [(n, op, n, op) for n, op in fc]
    cross = [(na, a, nb, b) for (_f, na, a, nb, b) in sweep_pairs()]
    out = []
    for (na, a, nb, b) in same + cross:
        envs = [None, {"VTL_USE_IN_MEMORY_DB": "0"}] if a["api"] == "run" and b["api"] == "run" else [None]
        for env in envs:
            for period in (1, 2, 3):
                scn = {"threads": [[{"name": na, "op": a}], [{"name": nb, "op": b}]],
                       "strategy": {"kind": "lockstep", "period": period}, "sched_seed": period}
                if env:
                    scn["env"] = env
                out.append(scn)
    return out


def task_lockstep(task):
    out = {"runs": 0, "steps": 0, "switches": 0, "file_backed": 0, "aligned": 0, "viols": []}
    _alone_cache.update(task.get("alone") or {})
    for scn in task["scenarios"]:
        _preparse(scn)
        child = proc.in_child(_scenario_child, scn, timeout=300)
        out["runs"] += 1
        out["steps"] += child["steps"]
        out["switches"] += len(child["schedule"])
        out["file_backed"] += int(bool(scn.get("env")))
        out["aligned"] += child.get("aligned_points", 0)
        for (inv, obs, sig) in judge(scn, child):
            st = scn["strategy"]
            out["viols"].append({"invariant": inv, "observed": obs + " [lockstep period %d]" % st["period"],
                                 "signature": dict(sig, invariant=inv, lockstep=True), "scenario": scn,
                                 "schedule": child["schedule"] if len(child["schedule"]) < 20000 else None,
                                 "digest": child["seam_digest"], "steps": child["steps"]})
            break
    return out


def task_minimise(task):
    """Re-search minimisation: fewer threads / calls, then the schedule with the fewest switches
    (PCT depth 1 first) that still violates the same invariant."""
    v = task["violation"]
    inv = v["invariant"]
    scn = v["scenario"]
    tests = [0]

    def fails(s, tries):
        _preparse(s)
        for i in range(tries):
            if tests[0] >= 150:
                return None
            tests[0] += 1
            cand = copy.deepcopy(s)
            cand["sched_seed"] = (s["sched_seed"] * 31 + i * 7919) % (1 << 30)
            ch = proc.in_child(_scenario_child, cand, timeout=300)
            for (i2, obs, sig) in judge(cand, ch):
                if i2 == inv:
                    return (cand, ch, obs)
        return None

    best = None
    # 1. two threads, one call each: every pair of calls
    allcalls = [(ti, c) for ti, cl in enumerate(scn["threads"]) for c in cl]
    done = False
    for i in range(len(allcalls)):
        for j in range(len(allcalls)):
            if i == j or allcalls[i][0] == allcalls[j][0] or done:
                continue
            for strat in ({"kind": "pct", "d": 1}, scn["strategy"]):
                s2 = {"threads": [[allcalls[i][1]], [allcalls[j][1]]], "strategy": strat, "sched_seed": scn["sched_seed"]}
                r = fails(s2, 10)
                if r:
                    best = r
                    done = True
                    break
    if best is None:
        r = fails(scn, 3)
        if r:
            best = r
    if best is None:
        return {"violation": v, "minimised": False, "tests": tests[0]}
    cand, ch, obs = best
    v2 = dict(v, scenario=cand, schedule=ch["schedule"], observed=obs, digest=ch["seam_digest"], steps=ch["steps"],
              minimised={"tests": tests[0], "switches": len(ch["schedule"])})
    return {"violation": v2, "minimised": True, "tests": tests[0]}


def run(ctx):
    rng = random.Random(ctx.seed * 1000003 + 17)
    quick = ctx.tier == "quick"
    n = 1500 if quick else 60000
    cps = [e for e in corpus.discover() if 0 < e["bytes"] < 3000]
    cps = rng.sample(cps, min(25 if quick else 200, len(cps)))
    seeds = [rng.randrange(1 << 30) for _ in range(n)]
    gen_pool = [rng.randrange(1 << 30) for _ in range(50 if quick else 400)]
    scns = [(sd, make_scenario(random.Random(sd), cps, gen_pool)) for sd in seeds]
    # phase 1: every distinct call alone, once (shared by all scenarios)
    distinct = {}
    for _sd, scn in scns:
        for cl in scn["threads"]:
            for c in cl:
                distinct.setdefault(_op_key(c["op"]), c["op"])
    items = sorted(distinct.items())
    chunk = 6
    alone_done = ctx.map("task_alone", [{"ops": items[i:i + chunk]} for i in range(0, len(items), chunk)],
                         budget_s=ctx.budget_s * 0.3)
    alone_map = {}
    for _t, r in alone_done:
        alone_map.update(r)
    size = 6
    tasks = []
    scns.sort(key=lambda ss: sum(1 for cl in ss[1]["threads"] for c in cl if _op_key(c["op"]) not in alone_map))
    for i in range(0, n, size):
        part = scns[i:i + size]
        keys = {_op_key(c["op"]) for _sd, scn in part for cl in scn["threads"] for c in cl}
        tasks.append({"scenarios": part, "alone": {k: alone_map[k] for k in keys if k in alone_map}})
    done = ctx.map("task_scenarios", tasks, budget_s=ctx.budget_s * 0.8, min_tasks=24)
    # phase 3: atomicity sweep over contending pairs
    pairs = sweep_pairs()
    rng.shuffle(pairs)
    if quick:
        seen_f, chosen = set(), []
        for pr in pairs:                       # one ordered pair per family
            if pr[0] not in seen_f:
                seen_f.add(pr[0])
                chosen.append(pr)
    else:
        chosen = pairs
    sweep_tasks = []
    for pr in chosen:
        keys = {_op_key(pr[2]), _op_key(pr[4])}
        sweep_tasks.append({"pair": pr, "seed": ctx.seed, "max_points": 100 if quick else 400, "wall_s": 45.0 if quick else 150.0, "alone": {k: alone_map[k] for k in keys if k in alone_map}})
    sweep_done = ctx.map("task_sweep", sweep_tasks, budget_s=ctx.budget_s * (0.5 if quick else 0.8), force=True, min_tasks=12)
    # phase 4: lockstep (both threads inside every short window at the same time)
    ls_all = lockstep_scenarios()
    rng.shuffle(ls_all)
    ls_all.sort(key=lambda s: (s["strategy"]["period"] != 1, not s.get("env")))   # symmetric period-1 runs first, file-backed first among them
    ls_sel = ls_all[:48] if quick else ls_all
    ls_tasks = []
    for i in range(0, len(ls_sel), 2):
        part = ls_sel[i:i + 2]
        keys = {_op_key(c["op"]) for scn in part for cl in scn["threads"] for c in cl}
        ls_tasks.append({"scenarios": part, "alone": {k: alone_map[k] for k in keys if k in alone_map}})
    ls_done = ctx.map("task_lockstep", ls_tasks, budget_s=ctx.budget_s * (0.25 if quick else 0.6), force=True, min_tasks=12)
    violations, inter, samples = [], set(), []
    ls_runs = ls_steps = ls_sw = ls_fb = ls_al = 0
    for _t, r in ls_done:
        ls_runs += r["runs"]; ls_steps += r["steps"]; ls_sw += r["switches"]; ls_fb += r["file_backed"]; ls_al += r["aligned"]
        violations += r["viols"]
    n_eval = steps = switches = contended = shared = open_after = 0
    n_eval += ls_runs
    sweep_points = sweep_hot = sweep_complete = 0
    sweep_table = []
    for _t, r in sweep_done:
        sweep_points += r["points"]
        sweep_hot += r["hot_points"]
        sweep_complete += int(r["complete_hot"] and not r["viols"])
        sweep_table.append({k: r[k] for k in ("family", "pair", "lines", "hot", "points", "hot_points", "complete_hot")})
        violations += r["viols"]
        n_eval += r["points"]
        for k in range(r["hot_points"]):          # only insertions right after a touch of process-global state count as non-trivial
            inter.add(("sweep", tuple(r["pair"]), k))
    by_strategy = {}
    kinds = {}
    for _t, res in done:
        for r in res:
            n_eval += 1
            steps += r["steps"]
            switches += r["switches"]
            contended += r["lock_contended"]
            shared += r["shared_events"]
            open_after += r.get("open_conns", 0)
            by_strategy[r["strategy"]] = by_strategy.get(r["strategy"], 0) + 1
            for k in r["kinds"]:
                kinds[k] = kinds.get(k, 0) + 1
            if r["switches"] >= 2 and r["sw_shared"] >= 1:
                inter.add((r["seed"], r["interleaving"], r["shared_digest"]))
            if "sample" in r and len(samples) < 3:
                samples.append(r["sample"])
            violations += r["viols"]
    # minimise one representative per signature
    seen, reps = set(), []
    for v in violations:
        key = (v["invariant"], json.dumps(v["signature"], sort_keys=True))
        if key not in seen:
            seen.add(key)
            reps.append(v)
    if reps:
        todo = reps[:4]
        mins = ctx.map("task_minimise", [{"violation": v, "idx": i} for i, v in enumerate(todo)], budget_s=120.0, force=True)
        for (t, r) in mins:
            reps[t["idx"]] = r["violation"]
    violations = reps
    coverage = {
        "evaluations": n_eval,
        "distinct_nontrivial": len(inter),
        "rule": "one evaluation = one scenario of 2-3 client threads x 1-3 API calls executed under the seeded baton scheduler in a pristine forked process. "
                "distinct_nontrivial = distinct (scenario, interleaving digest, digest of the (thread, shared-state line) subsequence) with >= 2 thread switches of which >= 1 happened at a line that touches process-global state (or at a simulated lock), plus the distinct 'hot' insertion points of the atomicity sweep (see atomicity_sweep).",
        "samples": samples or [{"note": "none"}],
        "simulated_steps": steps, "thread_switches": switches, "simulated_lock_contentions": contended,
        "shared_state_line_events": shared, "connections_still_open_after_scenarios_informational": open_after, "scenarios_by_strategy": by_strategy, "scenarios_by_call_kind": kinds,
        "tasks_skipped_by_budget": getattr(ctx, "last_skipped", 0),
        "fault_kinds_fired": {"thread_preemption": switches, "lock_contention": contended},
        "lockstep": {"space": len(ls_all), "runs": ls_runs, "file_backed_runs": ls_fb, "simulated_steps": ls_steps, "thread_switches": ls_sw, "aligned_line_events": ls_al,
                     "rule": "two threads on (nearly) the same code path are kept aligned: whenever one arrives at the line where the other is parked they advance alternately, period lines at a time (both inside every window of period+1 statements); "
                             "after a divergence each hunts for the other's position with a doubling budget: space = (every fixed call x itself + ordered contender pairs) x period (1,2,3) x {in-memory, file-backed for run()}"},
        "atomicity_sweep": {"ordered_pairs_available": len(pairs), "pairs_swept": len(sweep_done), "insertion_points_run": sweep_points,
                            "of_which_hot": sweep_hot, "pairs_with_every_hot_point_run": sweep_complete,
                            "rule": "for an ordered pair (A, B) of calls contending for the same process state: B as a whole is inserted into A at a line event of A (one pre-emption per run); "
                                    "'hot' = within %d line events after A touched process-global state" % sched.HOT_SPAN,
                            "table": sweep_table[:30]},
    }
    return {"level": "exploration", "coverage": coverage, "violations": violations,
            "assumptions": [
                "parser is a stand-in whose global 'last tree' is modelled with epochs (use-after-free hazard model of bindings.cpp)",
                "pre-emption at engine line granularity (opcode at shared-state lines); a native DuckDB call is one step",
                "DuckDB's own worker threads are not scheduled (VTL_THREADS=1)",
            ]}


def replay(rec):
    scn = rec["scenario"]
    _preparse(scn)
    child = proc.in_child(_scenario_child, scn, rec.get("schedule"), timeout=300)
    out = []
    for (inv, obs, _sig) in judge(scn, child):
        out.append({"invariant": inv, "observed": obs, "digest": child["seam_digest"]})
    return out
