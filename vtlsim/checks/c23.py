"""C23 (one clause, Python half) — a parse leaves no state that changes the next parse.

Seeded single-threaded histories of 2-8 parse-bearing API calls in one process; the outcome
of call k must equal the outcome of the same call as the first call of a pristine process.
The crash/hang/error-location clauses concern the native parser and are not claimed."""
import hashlib
import json
import random

from .. import corpus, ops, proc
from ..seams import SIM

BUDGET = {"quick": 140.0, "thorough": 3000.0}

HR = 'define hierarchical ruleset {n} (variable rule {c}) is A = B + C errorcode "e1" errorlevel 1; D = A - B end hierarchical ruleset;'
HRV = 'define hierarchical ruleset {n} (valuedomain rule {c}) is A = B + C end hierarchical ruleset;'
DPR = 'define datapoint ruleset {n} (variable {c}) is r1: {c} > 0 errorcode "neg" errorlevel 2 end datapoint ruleset;'
UDO = 'define operator {n} (x dataset, y {t}) returns dataset is x {o} y end operator;'
VP = 'define viral propagation {n} (variable VAt_1) is when "A" then "{v}"; else "D" end viral propagation;'

ST = {"datasets": [{"name": n, "DataStructure": [
    {"name": "Id_1", "type": "Integer", "role": "Identifier", "nullable": False},
    {"name": "Id_2", "type": "String", "role": "Identifier", "nullable": False},
    {"name": "Id_3", "type": "String", "role": "Identifier", "nullable": False},
    {"name": "Me_1", "type": "Number", "role": "Measure", "nullable": True}]} for n in ("DS_1", "DS_2")]}


def text_pool():
    t = []
    for name in ("HR_1", "HR_2"):
        for comp in ("Id_2", "Id_3"):
            t.append(HR.format(n=name, c=comp) + "\nDS_r <- check_hierarchy(DS_1, %s rule %s);" % (name, comp))
            t.append(HR.format(n=name, c=comp) + "\nDS_r <- check_hierarchy(DS_1, %s);" % name)
            t.append("DS_r <- check_hierarchy(DS_1, %s);\n" % name + HR.format(n=name, c=comp))
            t.append(HR.format(n=name, c=comp) + "\nDS_r <- hierarchy(DS_1, %s);" % name)
            t.append("DS_r <- hierarchy(DS_1, %s rule %s non_null);\n" % (name, comp) + HR.format(n=name, c=comp))
        t.append("DS_r <- check_hierarchy(DS_1, %s);" % name)            # use without definition
        t.append("DS_r <- hierarchy(DS_1, %s);" % name)
        t.append(HRV.format(n=name, c="Id_2") + "\nDS_r <- check_hierarchy(DS_1, %s);" % name)
    for comp in ("Me_1", "Id_1"):
        t.append(DPR.format(n="dpr_1", c=comp) + "\nDS_r <- check_datapoint(DS_1, dpr_1);")
    t.append("DS_r <- check_datapoint(DS_1, dpr_1);")
    for (ty, o) in (("dataset", "+"), ("dataset", "-"), ("scalar", "*")):
        t.append(UDO.format(n="f1", t=ty, o=o) + "\nDS_r <- f1(DS_1, %s);" % ("DS_2" if ty == "dataset" else "2"))
    t.append("DS_r <- f1(DS_1, DS_2);")
    # operators with other parameter kinds, and texts that *call without defining* them in ways whose statement
    # order / cycle detection depends on which arguments count as dependencies
    UDOC = "define operator f2 (x dataset, c component) returns dataset is x[calc Me_9 := c * 2] end operator;"
    UDOS = "define operator f2 (x dataset, c dataset) returns dataset is x + c end operator;"
    UDOK = "define operator f3 (x dataset, k number default 2) returns dataset is x * k end operator;"
    t += [UDOC + "\nDS_r <- f2(DS_1, Me_1);", UDOS + "\nDS_r <- f2(DS_1, DS_2);", UDOK + "\nDS_r <- f3(DS_1, 3); DS_s <- f3(DS_2);",
          "DS_a <- f2(DS_1, DS_b); DS_b <- f2(DS_1, DS_a);",                 # a cycle if both arguments are dependencies
          "DS_a <- f2(DS_1, DS_b);\nDS_b <- DS_1 * 2;",                     # order depends on the second argument
          "DS_b <- DS_1 * 2; DS_a <- f2(DS_b, Me_1);", "sc_k := 3; DS_a <- f3(DS_1, sc_k);", "DS_a <- f3(DS_1, sc_k); sc_k := 3;",
          UDOC + "\nDS_a <- f2(DS_1, DS_b); DS_b <- f2(DS_1, DS_a);",
          DPR.format(n="dpr_1", c="Me_1") + "\nDS_a <- check_datapoint(DS_b, dpr_1); DS_b <- DS_1;",
          "DS_a <- check_datapoint(DS_b, dpr_1); DS_b <- DS_1;"]
    for v in ("Z", "Q"):
        t.append(VP.format(n="vp", v=v) + "\nDS_r <- DS_1 + DS_2;")
    # texts that get past the parser and fail later (AST construction, DAG), placed *after* definitions
    # that the AST builder has already recorded when the failure happens
    fail_tails = ["define operator g1 (x dataset) is x * 2 end operator;\nDS_r <- g1(DS_1);",      # 1-3-2-2: no 'returns'
                  "DS_r <- time_agg(\"A\");",                                                       # 1-3-2-4: no operand
                  "DS_r <- lag(DS_1 over (partition by Id_1 order by Id_2));",                        # offset missing
                  "DS_a <- DS_b + 1; DS_b <- DS_a + 1;",                                              # cycle
                  "DS_r := DS_1; DS_r := DS_2;",                                                      # overwriting
                  "DS_r <- eval(f(DS_1) returns dataset {identifier<integer> Id_1});",                # eval without language
                  "DS_r <- DS_1 +;"]                                                                  # syntax error
    heads = [HR.format(n="HR_1", c="Id_2"), HR.format(n="HR_1", c="Id_3"), HR.format(n="HR_2", c="Id_2"),
             DPR.format(n="dpr_1", c="Me_1"), UDO.format(n="f1", t="dataset", o="+"), VP.format(n="vp", v="Z"),
             HR.format(n="HR_1", c="Id_2") + "\n" + UDO.format(n="f1", t="scalar", o="*")]
    for h in heads:
        for ft in fail_tails:
            t.append(h + "\n" + ft)
    t += fail_tails
    # deep nesting, valid and rejected by the AST builder inside the nesting (anything counted or stacked per
    # level must be unwound on failure too); long histories below let small per-failure leaks add up
    def nest(k, core):
        return "DS_r <- " + "(" * k + core + ")" * k + ";"
    for k in (10, 40, 80):
        t.append(nest(k, "DS_1 + 1"))
    for k in (10, 30, 60):
        t.append(nest(k, "eval(f(DS_1) returns dataset {identifier<integer> Id_1})"))
        t.append(nest(k, 'time_agg("A")') + "\nDS_s <- DS_1;")
    # comment-bearing texts: prettify / create_ast_with_comments merge the comment channel of *this* parse
    # into the statements of *this* AST by position
    t += ["/* head */\nDS_r <- DS_1 + DS_2; // after first\n/* between */ DS_s := DS_r * 2; /* tail */",
          "// only line comment\nDS_r <- DS_1;",
          "DS_r <- DS_1 /* inner */ + DS_2;\n\n\n// far below\n",
          "/* a */ /* b */ /* c */ DS_r <- DS_1; /* d */",
          "define operator f1 (x dataset, y dataset) /* sig */ returns dataset is x + y /* body */ end operator; // def done\nDS_r <- f1(DS_1, DS_2); // call",
          HR.format(n="HR_1", c="Id_2") + " /* ruleset comment */\nDS_r <- check_hierarchy(DS_1, HR_1 rule Id_2); // use",
          "DS_r <- DS_1;\nDS_s <- DS_2;\nDS_t <- DS_1 + DS_2; /* only the third has a comment */"]
    t += ["DS_r <- DS_1 + DS_2; /* c1 */ DS_s := DS_r[filter Me_1 > 1]; // tail",
          "/* only a comment */", "", "   \n\n", "DS_r <- DS_1 +;", "DS_r <- ;", "define hierarchical ruleset HR_1 (variable rule Id_2) is A = end",
          "DS_r <- DS_1[calc Me_2 := Me_1 * 2][filter Me_2 > 3][keep Me_2];",
          "DS_r := DS_1; DS_r := DS_2;", "DS_a <- DS_b; DS_b <- DS_a;",
          "DS_r <- check_hierarchy(DS_1, HR_1 rule Id_3 dataset);",
          "\tDS_r <- DS_1 @ DS_2;", "DS_r <- DS_1 + DS_2"]
    return t


def confusable(rng, txt):
    """A text that a too-coarse memo key (stripped / lower-cased / whitespace-collapsed / comment-free /
    prefix / length) would confuse with `txt`, while its parse result differs (positions, names, comments)."""
    k = rng.randrange(10)
    if k == 0:
        return rng.choice(["\n", "\n\n\n", "  ", "\t", " \n "]) + txt
    if k == 1:
        return txt + rng.choice(["\n", "  ", "\n\n"])
    if k == 2:
        return txt.replace(" ", "  ", 1) if " " in txt else txt + " "
    if k == 3:
        return txt.replace("DS_1", "ds_1") if "DS_1" in txt else txt.upper()
    if k == 4:
        return "/* note */ " + txt
    if k == 5:
        return txt.replace(";", "; // x\n", 1) if ";" in txt else txt
    if k == 6:
        return txt.replace("DS_1", "DS_2", 1) if "DS_1" in txt else txt     # same length, same shape
    if k == 7:
        return txt.replace("Id_2", "Id_3") if "Id_2" in txt else txt.replace("Me_1", "Me_2")
    if k == 8:
        return txt + "\nDS_zz <- DS_1;"                                      # same prefix
    return txt.replace("\n", " ")


def _op(api, txt):
    return {"api": api, "script": txt, "structures": ST if api == "semantic_analysis" else None, "data": None,
            "kwargs": ({"agency_id": "MD", "id": "T1"} if api == "generate_sdmx" else {}), "env": {}, "output_folder": False}


def pattern_histories(rng, texts):
    """Histories built on purpose (every run starts with a sample of them): the shapes in which state left by a parse has
    shown up so far, instantiated over the whole pool - a definition (or a failure after a definition) followed by a use of
    the same name without a definition; a confusable variant of a text followed by the text; many rejected texts followed by
    an accepted one; a comment-bearing text followed by another; the same call twice."""
    import re

    out = []
    names = ("f1", "f2", "f3", "g1", "HR_1", "HR_2", "dpr_1", "vp")
    defines = {n: [t for t in texts if re.search(r"define [a-z ]+ %s\b" % n, t)] for n in names}
    uses_nodef = {n: [t for t in texts if re.search(r"\b%s\b" % n, t) and not re.search(r"define [a-z ]+ %s\b" % n, t)] for n in names}
    for n in names:
        for d in defines[n]:
            for u in uses_nodef[n]:
                api = rng.choice(["create_ast", "create_ast", "prettify", "semantic_analysis"])
                out.append([_op("create_ast", d), _op(api, u)])
    for t in texts:
        for k in range(10):
            v = confusable(random.Random(k), t)       # variant kind k (confusable draws its kind first)
            if v != t:
                api = rng.choice(["create_ast", "prettify", "generate_sdmx"])
                out.append([_op(api, v), _op(api, t)] if rng.random() < 0.5 else [_op(api, t), _op(api, v)])
    rejected = [t for t in texts if "eval(f(DS_1)" in t or 'time_agg("A")' in t or "is x * 2 end operator" in t or t.endswith("+;")]
    accepted = [t for t in texts if t.startswith("DS_r <- (((") and "eval" not in t and "time_agg" not in t] + ["DS_r <- DS_1 + DS_2;"]
    for _ in range(40):
        rej = rng.choice(rejected)
        n = rng.choice([2, 3, 5, 12, 40])
        out.append([_op(rng.choice(["create_ast", "prettify"]), rej) for _ in range(n)] + [_op("create_ast", rng.choice(accepted))])
    commented = [t for t in texts if "/*" in t or "//" in t]
    for c in commented:
        other = rng.choice(texts)
        out.append([_op("prettify", c), _op("prettify", other), _op("prettify", c)])
    for t in rng.sample(texts, min(30, len(texts))):
        api = rng.choice(["generate_sdmx", "prettify", "create_ast"])
        out.append([_op(api, t), _op(api, t)])
    rng.shuffle(out)
    return out


def _stem(txt):
    """Texts that differ only by what confusable() changes share a stem."""
    import re

    t = re.sub(r"/\*.*?\*/|//[^\n]*", "", txt)
    t = re.sub(r"\s+", "", t).lower()
    return re.sub(r"ds_\d|id_\d|me_\d", "x", t)[:60]


def make_call(rng, texts, corpus_entries):
    r = rng.random()
    if r < 0.75 or not corpus_entries:
        txt = rng.choice(texts)
        if rng.random() < 0.35:
            # a bounded family of variants per text (seeded by the text), so that the number of distinct calls -
            # each needs a pristine-process reference - stays bounded
            txt = confusable(random.Random(len(txt) * 31 + rng.randrange(3)), txt)
        api = rng.choice(["create_ast", "create_ast", "prettify", "semantic_analysis", "generate_sdmx"])
        op = {"api": api, "script": txt, "structures": ST if api == "semantic_analysis" else None, "data": None,
              "kwargs": ({"agency_id": "MD", "id": "T1"} if api == "generate_sdmx" else {}), "env": {}, "output_folder": False}
        return op
    e = rng.choice(corpus_entries)
    api = rng.choice(["create_ast", "prettify", "semantic_analysis"])
    op = corpus.as_op(e, api=api)
    op["data"] = None
    if api != "semantic_analysis":
        op["structures"] = None
        op["kwargs"] = {}
    return op


def _key(op):
    return hashlib.sha256(json.dumps(op, sort_keys=True, default=str).encode()).hexdigest()


def _alone_child(op):
    sb = ops.Sandbox("c23a")
    try:
        SIM.reset(seed=0)
        return ops.execute_op(op, sb, 0)
    finally:
        sb.cleanup()


def _history_child(calls):
    from ..parser_standin import shim

    sb = ops.Sandbox("c23")
    try:
        SIM.reset(seed=0)
        out = []
        for i, op in enumerate(calls):
            pf = op.get("parse_fault")
            shim.arm_parse_fault(pf["at"], pf["kind"]) if pf else shim.arm_parse_fault()
            out.append(ops.execute_op(op, sb, i))
        shim.arm_parse_fault()
        # what the history left behind must not stop *another thread* from parsing (a lock taken for a parse
        # and never released is invisible to the thread that holds it when the lock is re-entrant)
        import threading

        box = []

        def probe():
            box.append(ops.execute_op({"api": "create_ast", "script": "DS_probe <- DS_1 + 1;", "kwargs": {}, "env": {}}, sb, 999))

        th = threading.Thread(target=probe, name="c23-probe", daemon=True)
        th.start()
        th.join(20.0)
        out.append(("hang", "a parse from another thread did not return within 20 s after this history") if th.is_alive() else box[0])
        return out
    finally:
        sb.cleanup()


def _preparse(calls):
    from ..parser_standin import shim

    t = ["DS_probe <- DS_1 + 1;", "DS_probe <- DS_1 + 1;\n"]
    for op in calls:
        if op.get("script") is not None:
            t += [op["script"], op["script"] + "\n"]
    shim.preparse(t)


_alone = {}


def alone(op):
    k = _key(op)
    if k not in _alone:
        _preparse([op])
        _alone[k] = proc.in_child(_alone_child, op, timeout=120)
    return _alone[k]


def task_alone(task):
    return {k: alone(op) for k, op in task["ops"]}


def _names_defined(script):
    import re

    return set(re.findall(r"define (?:hierarchical|datapoint) ruleset (\w+)|define operator (\w+)", script or ""))


PROBE = {"api": "create_ast", "script": "DS_probe <- DS_1 + 1;", "structures": None, "data": None, "kwargs": {}, "env": {}, "output_folder": False}


def judge(calls, got):
    viols = []
    if len(got) == len(calls) + 1:
        tail = got[-1]
        got = got[:-1]
        if tail[0] == "hang":
            viols.append(("parse-from-another-thread-hangs-after-history", tail[1], {"api": "create_ast", "hierarchy_call": False}))
        else:
            d = ops.diff_outcomes(alone(PROBE), tail, compare_messages=True)
            if d:
                viols.append(("call-outcome-depends-on-earlier-parses", "probe parse from another thread after the history: " + d,
                              {"api": "create_ast", "hierarchy_call": False}))
    for i, (op, oc) in enumerate(zip(calls, got)):
        if op.get("parse_fault"):
            continue        # this call was made to fail inside the parser call; what is judged is every call after it
        ref = alone(op)
        d = ops.diff_outcomes(ref, oc, compare_messages=True)
        if not d and ref[0] == "exc" and (ref[5], ref[6]) != (oc[5], oc[6]):
            d = "error location differs: %s vs %s" % ((ref[5], ref[6]), (oc[5], oc[6]))
        if d:
            viols.append(("call-outcome-depends-on-earlier-parses", "call %d (%s of %r): %s" % (i, op["api"], (op.get("script") or "")[:80], d),
                          {"api": op["api"], "hierarchy_call": "hierarchy" in (op.get("script") or "")}))
    return viols


def task_histories(task):
    _alone.update(task.get("alone") or {})
    out = []
    for hid, calls in task["histories"]:
        _preparse(calls)
        got = proc.in_child(_history_child, calls, timeout=60 + 20 * len(calls))
        viols = judge(calls, got)
        # nontrivial: some call follows a call that defined a name it uses
        nontrivial = False
        defined = set()
        for op in calls:
            sc = op.get("script") or ""
            if any(n and n in sc for tup in defined for n in tup):
                nontrivial = True
            defined |= _names_defined(sc)
        out.append({"hid": hid, "n": len(calls), "nontrivial": nontrivial, "pf": any(op.get("parse_fault") for op in calls),
                    "viols": [{"invariant": inv, "observed": obs, "signature": dict(sig, invariant=inv),
                               "scenario": {"calls": calls}, "digest": ""} for (inv, obs, sig) in viols],
                    "sample": [(c["api"], (c.get("script") or "")[:70]) for c in calls] if hid % 97 == 0 else None})
    return out


def task_minimise(task):
    """Drop calls from the history while some call still differs from its pristine outcome."""
    v = task["violation"]
    calls = list(v["scenario"]["calls"])
    inv = v["invariant"]

    def fails(cs):
        _preparse(cs)
        got = proc.in_child(_history_child, cs, timeout=120)
        return [x for x in judge(cs, got) if x[0] == inv]

    tests = 0
    i = 0
    while i < len(calls) and len(calls) > 1 and tests < 40:
        cand = calls[:i] + calls[i + 1:]
        tests += 1
        if fails(cand):
            calls = cand
        else:
            i += 1
    f = fails(calls)
    if f:
        v = dict(v, scenario={"calls": calls}, observed=f[0][1], minimised={"tests": tests, "calls": len(calls)})
    return {"violation": v}


def run(ctx):
    rng = random.Random(ctx.seed * 1000003 + 23)
    quick = ctx.tier == "quick"
    n = 4000 if quick else 200000
    texts = text_pool()
    areas = ("Hierarchical", "DatapointRulesets", "UDO", "ViralAttributes", "Validation")
    cps = [e for e in corpus.discover() if e["id"].split("/")[0] in areas and e["bytes"] < 20000]
    cps = rng.sample(cps, min(40 if quick else 400, len(cps)))
    # a bounded pool of distinct calls (each needs one pristine-process reference; forks are the
    # bottleneck at ~40/s on this machine), histories draw from the pool
    pool_n = 300 if quick else 12000
    pool = {}
    for _ in range(pool_n * 3):
        op = make_call(rng, texts, cps)
        pool.setdefault(_key(op), op)
        if len(pool) >= pool_n:
            break
    pool = list(pool.values())
    by_stem = {}
    for op in pool:
        by_stem.setdefault(_stem(op.get("script") or ""), []).append(op)
    stems = sorted(by_stem)
    # calls grouped by the definable name they mention (operator / ruleset / propagation-rule names): a definition
    # in one call and a use - with or without a definition of its own - in a later call of the same history
    import re as _re

    by_name = {}
    for op in pool:
        for nm in set(_re.findall(r"\b(f1|f2|f3|g1|HR_1|HR_2|dpr_1|vp)\b", op.get("script") or "")):
            by_name.setdefault(nm, []).append(op)
    names = sorted(n for n, v in by_name.items() if len(v) >= 2)
    hist = []
    for h in range(n):
        k = rng.choice([2, 2, 3, 3, 4, 5, 6, 8])
        if rng.random() < 0.12:
            k = rng.choice([16, 24, 40, 60])          # long histories: accumulation
        r = rng.random()
        if r < 0.3 and names:
            ws = by_name[rng.choice(names)]
            hist.append((h, [rng.choice(ws) for _ in range(k)]))
        elif r < 0.6:
            # a small working set per history, so that variants of the same text (and definitions and uses of the same names) meet
            ws = [op for st in rng.sample(stems, min(2, len(stems))) for op in by_stem[st]]
            hist.append((h, [rng.choice(ws) for _ in range(k)]))
        else:
            hist.append((h, [rng.choice(pool) for _ in range(k)]))
    # pattern histories first (a sample in quick, all of them in thorough)
    pats = pattern_histories(random.Random(ctx.seed * 7 + 1), texts)
    pats = pats[: (150 if quick else len(pats))]
    hist = [(1000000 + i, calls) for i, calls in enumerate(pats)] + hist
    # fault injection at the parser seam: a call whose parse() raises (allocation failure / interrupt inside the
    # native call), immediately followed by the same call fault-free, and then by whatever the history had next
    n_pf = 0
    for hi, (h, calls) in enumerate(hist):
        if rng.random() < 0.3 and len(calls) < 60:
            j = rng.randrange(len(calls))
            faulted = dict(calls[j], parse_fault={"at": rng.choice([1, 1, 2]), "kind": rng.choice(["memerr", "memerr", "kbdint"])})
            hist[hi] = (h, calls[:j] + [faulted] + calls[j:])
            n_pf += 1
    distinct = {}
    for _h, calls in hist:
        for op in calls:
            if not op.get("parse_fault"):
                distinct.setdefault(_key(op), op)
    # references needed by the pattern histories first
    pat_keys = {_key(op) for h, calls in hist if h >= 1000000 for op in calls if not op.get("parse_fault")}
    items = sorted(distinct.items(), key=lambda kv: (kv[0] not in pat_keys, kv[0]))
    chunk = 10
    ad = ctx.map("task_alone", [{"ops": items[i:i + chunk]} for i in range(0, len(items), chunk)], budget_s=ctx.budget_s * 0.35)
    amap = {}
    for _t, r in ad:
        amap.update(r)
    size = 10
    tasks = []
    # histories whose references are all known first; the others compute the missing references
    # themselves (a slow machine shrinks the exploration, it does not empty it)
    hist.sort(key=lambda hc: (hc[0] < 1000000, sum(1 for op in hc[1] if not op.get("parse_fault") and _key(op) not in amap)))
    for i in range(0, len(hist), size):
        part = hist[i:i + size]
        keys = {_key(op) for _h, calls in part for op in calls}
        tasks.append({"histories": part, "alone": {k: amap[k] for k in keys if k in amap}})
    done = ctx.map("task_histories", tasks, budget_s=ctx.budget_s * 0.6, min_tasks=24)
    violations, samples = [], []
    n_eval = n_calls = n_nontrivial = n_pf_run = 0
    for _t, res in done:
        for r in res:
            n_eval += 1
            n_calls += r["n"]
            n_nontrivial += int(r["nontrivial"])
            n_pf_run += int(r.get("pf", False))
            if r["sample"] and len(samples) < 3:
                samples.append(r["sample"])
            violations += r["viols"]
    seen, reps = set(), []
    for v in violations:
        key = (v["invariant"], json.dumps(v["signature"], sort_keys=True))
        if key not in seen:
            seen.add(key)
            reps.append(v)
    if reps:
        mins = ctx.map("task_minimise", [{"violation": v, "idx": i} for i, v in enumerate(reps[:4])], budget_s=120.0, force=True)
        for (t, r) in mins:
            reps[t["idx"]] = r["violation"]
    coverage = {
        "evaluations": n_eval,
        "distinct_nontrivial": n_nontrivial,
        "rule": "one evaluation = one history of 2-8 parse-bearing API calls (create_ast, prettify, semantic_analysis, generate_sdmx) executed in one pristine process, "
                "each call compared with the same call as the first call of a pristine process. distinct_nontrivial = histories (all distinct by construction seed) in which "
                "some call mentions a ruleset/operator name that an earlier call of the same history defined.",
        "samples": samples or [{"note": "none"}],
        "api_calls": n_calls, "distinct_calls_with_pristine_reference": len(amap),
        "histories_with_a_fault_injected_inside_the_parser_call": n_pf_run,
        "fault_kinds_fired": {"parser_call_memerr_or_interrupt": n_pf_run},
        "tasks_skipped_by_budget": getattr(ctx, "last_skipped", 0),
    }
    return {"level": "exploration", "coverage": coverage, "violations": reps,
            "assumptions": [
                "only the clause 'parsing a text leaves no state that changes the result of the next parse' is claimed, and only its Python half (AST construction, DAG, comment merge, module state); the native parser is a stand-in",
            ]}


def replay(rec):
    calls = rec["scenario"]["calls"]
    _preparse(calls)
    got = proc.in_child(_history_child, calls, timeout=300)
    return [{"invariant": inv, "observed": obs, "digest": ""} for (inv, obs, _s) in judge(calls, got)]
