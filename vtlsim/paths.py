"""Locations used by the framework.  Nothing here touches /repo."""
import os

VERIF = os.path.dirname(os.path.dirname(os.path.abspath(__file__)))
REPO = os.environ.get("VERIF_REPO", "/repo")
REPO_SRC = os.path.join(REPO, "src")
BUILD = os.environ.get("VERIF_BUILD", os.path.join(VERIF, "build"))
JAR = os.path.join(VERIF, "third_party", "antlr4-runtime-4.11.1.jar")
# the two overrides exist for runs against scratch trees (seeded changes): such runs must not
# rewrite the committed evidence of the real tree
EVIDENCE = os.environ.get("VERIF_EVIDENCE_DIR") or os.path.join(VERIF, "evidence")
REPLAYS = os.environ.get("VERIF_REPLAYS_DIR") or os.path.join(VERIF, "replays")
KNOWN_FINDINGS = os.path.join(VERIF, "known_findings.json")
CPP_DIR = os.path.join(REPO_SRC, "vtlengine", "AST", "Grammar", "_cpp_parser")


def scratch_root() -> str:
    """Scratch space outside /repo and /verif, removed by whoever creates entries in it."""
    root = os.environ.get("VERIF_SCRATCH")
    if not root:
        base = "/dev/shm" if os.path.isdir("/dev/shm") and os.access("/dev/shm", os.W_OK) else "/tmp"
        root = os.path.join(base, "vtlsim")
    os.makedirs(root, exist_ok=True)
    return root
