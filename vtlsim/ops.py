"""API operations as explicit JSON-able descriptors, their execution against the real
engine, and outcome normalisation.

op = {
  "api": "run" | "semantic_analysis" | "prettify" | "create_ast" | "validate_dataset" | "generate_sdmx" | "run_sdmx",
  "script": str,
  "structures": dict (VTL JSON)  |  {"paths": [..]}            # files of the corpus
  "data": {name: {"kind": "df", "columns": [...], "rows": [[..]..]}
                 | {"kind": "csv_text", "text": "..."}          # written into the sandbox
                 | {"kind": "csv_path", "path": "/repo/..."}
                 | {"kind": "parquet_df", "columns": [...], "rows": [...]}   # written as parquet
                 | {"kind": "none"}},
  "kwargs": {...},            # return_only_persistent, time_period_output_format, scalar_values, value_domains, external_routines, output_format
  "output_folder": bool,
  "env": {"VTL_THREADS": "2", ...}     # engine knobs for this call
}
"""
import math
import os
import shutil

ENGINE_ENV_KEYS = (
    "VTL_THREADS", "VTL_USE_IN_MEMORY_DB", "VTL_MEMORY_LIMIT", "VTL_TEMP_DIRECTORY",
    "VTL_MAX_TEMP_DIRECTORY_SIZE", "VTL_DUCKDB_DECIMAL_WIDTH", "OUTPUT_NUMBER_SIGNIFICANT_DIGITS",
    "VTL_SKIP_LOAD_VALIDATION", "COMPARISON_ABSOLUTE_THRESHOLD",
)


class Sandbox:
    """Per-scenario directory tree outside /repo and /verif: tmp/ (VTL_TEMP_DIRECTORY),
    in/ (materialised inputs), out/<n>/ (output folders)."""

    def __init__(self, tag):
        from . import paths

        self.root = os.path.join(paths.scratch_root(), "sb-%s-%d" % (tag, os.getpid()))
        shutil.rmtree(self.root, ignore_errors=True)
        self.tmp = os.path.join(self.root, "tmp")
        self.inp = os.path.join(self.root, "in")
        self.out = os.path.join(self.root, "out")
        for d in (self.tmp, self.inp, self.out):
            os.makedirs(d)
        self._n = 0
        from . import seams

        seams.PATH_SUBST[:] = [(self.root, "<SB>")]

    def new_out(self):
        self._n += 1
        return os.path.join(self.out, str(self._n))

    def cleanup(self):
        shutil.rmtree(self.root, ignore_errors=True)

    def leftovers(self):
        """Ledger: what the engine left under its temp directory."""
        out = []
        for base, dirs, files in os.walk(self.tmp):
            for n in dirs + files:
                out.append(os.path.relpath(os.path.join(base, n), self.tmp))
        return sorted(out)

    def open_fds(self):
        """File descriptors of this process that point under the sandbox temp dir / db files."""
        out = []
        try:
            for fd in os.listdir("/proc/self/fd"):
                try:
                    tgt = os.readlink("/proc/self/fd/" + fd)
                except OSError:
                    continue
                if tgt.startswith(self.tmp) or tgt.endswith(".duckdb") or tgt.endswith(".duckdb.wal"):
                    out.append(tgt)
        except OSError:
            pass
        return sorted(out)


def _mk_df(spec):
    import pandas as pd

    cols = spec["columns"]
    rows = spec["rows"]
    data = {c: [r[i] for r in rows] for i, c in enumerate(cols)}
    df = pd.DataFrame(data, columns=cols)
    for c, dt in (spec.get("dtypes") or {}).items():
        df[c] = df[c].astype(dt)
    return df


def materialise(op, sandbox, opno=0):
    """Build the python-level arguments of the call.  Returns (args dict, caller-side objects)."""
    from pathlib import Path

    api = op["api"]
    kw = {}
    if "script" in op:
        kw["script"] = op["script"]
    st = op.get("structures")
    if st is not None:
        if isinstance(st, dict) and "paths" in st:
            kw["data_structures"] = [Path(p) for p in st["paths"]]
        else:
            import copy

            kw["data_structures"] = copy.deepcopy(st)
    if "data" in op and op["data"] is not None:
        dps = {}
        for name, spec in op["data"].items():
            k = spec["kind"]
            if k == "df":
                dps[name] = _mk_df(spec)
            elif k == "csv_text":
                # one file per distinct content, written once: later operations of the same history read
                # the *same unchanged file* (same path, size, mtime), as a caller re-running a script does
                import hashlib

                p = os.path.join(sandbox.inp, "%s_%s.csv" % (name, hashlib.sha1(spec["text"].encode()).hexdigest()[:12]))
                if not os.path.exists(p):
                    with open(p, "w", encoding="utf-8", newline="") as f:
                        f.write(spec["text"])
                dps[name] = Path(p)
            elif k == "csv_path":
                dps[name] = Path(spec["path"])
            elif k == "parquet_df":
                import hashlib

                key = hashlib.sha1(repr((spec["columns"], spec["rows"], spec.get("dtypes"))).encode()).hexdigest()[:12]
                p = os.path.join(sandbox.inp, "%s_%s.parquet" % (name, key))
                if not os.path.exists(p):
                    df = _mk_df(spec)
                    # whole-number columns with nulls are written as nullable integers (what a typed producer
                    # writes), not as the floats pandas would infer
                    for col in df.columns:
                        vals = [v for v in df[col].tolist() if v is not None and v == v]
                        if vals and len(vals) < len(df) and all(isinstance(v, (int, float)) and not isinstance(v, bool) and float(v).is_integer() for v in vals) \
                                and all(isinstance(r[list(df.columns).index(col)], int) or r[list(df.columns).index(col)] is None for r in spec["rows"]):
                            df[col] = df[col].astype("Int64")
                    df.to_parquet(p, index=False)
                dps[name] = Path(p)
            elif k == "url":
                dps[name] = spec["url"]
            elif k == "none":
                dps[name] = None
        kw["datapoints"] = dps
    for k, v in (op.get("kwargs") or {}).items():
        import copy

        if isinstance(v, dict) and "__paths__" in v:
            kw[k] = [Path(p) for p in v["__paths__"]]
        else:
            kw[k] = copy.deepcopy(v)
    if op.get("output_folder"):
        kw["output_folder"] = Path(sandbox.new_out())
        if op.get("output_folder") == "is-a-file":
            # a regular file where the output folder should be: every write into it fails
            with open(kw["output_folder"], "w") as f:
                f.write("not a directory\n")
    if api in ("prettify", "create_ast"):
        kw = {"script": op["script"]} if api == "prettify" else {"text": op["script"]}
    if api == "validate_dataset":
        kw.pop("script", None)
    return kw


def set_env(op, sandbox):
    for k in ENGINE_ENV_KEYS:
        os.environ.pop(k, None)
    os.environ["VTL_TEMP_DIRECTORY"] = sandbox.tmp
    for k, v in (op.get("env") or {}).items():
        if k == "VTL_TEMP_DIRECTORY":
            v = os.path.join(sandbox.tmp, v) if not os.path.isabs(v) else v
        os.environ[k] = str(v)


def _cell(x):
    import pandas as pd

    if x is None:
        return None
    if x is pd.NA or x is pd.NaT:
        return None
    if isinstance(x, float):
        if math.isnan(x):
            return None
        return x
    if hasattr(x, "item") and not isinstance(x, (str, bytes)):
        try:
            x = x.item()
        except Exception:
            pass
        if isinstance(x, float) and math.isnan(x):
            return None
        return x
    if isinstance(x, (int, str, bool)):
        return x
    try:
        if pd.isna(x):
            return None
    except Exception:
        pass
    return str(x)


def _sort_key(row):
    out = []
    for v in row:
        if v is None:
            out.append((0, ""))
        elif isinstance(v, bool):
            out.append((1, str(v)))
        elif isinstance(v, (int, float)):
            out.append((2, "%+.6e" % float(v) if isinstance(v, float) else "%+025d" % v))
        else:
            out.append((3, str(v)))
    return tuple(out)


def norm_dataset(ds):
    comps = tuple(
        (c.name, getattr(c.data_type, "__name__", str(c.data_type)), c.role.value, bool(c.nullable))
        for c in ds.components.values()
    )
    if ds.data is None:
        return ("ds", comps, None, None)
    cols = tuple(str(c) for c in ds.data.columns)
    rows = [tuple(_cell(x) for x in r) for r in ds.data.astype(object).values.tolist()]
    # sort by identifier columns first (they are a key), then by everything
    id_idx = [i for i, c in enumerate(cols) if any(cc[0] == c and cc[2] == "Identifier" for cc in comps)]
    rows.sort(key=lambda r: (_sort_key([r[i] for i in id_idx]), _sort_key(r)))
    return ("ds", comps, cols, rows)


def norm_value(v):
    from vtlengine.Model import Dataset, Scalar

    if isinstance(v, Dataset):
        return norm_dataset(v)
    if isinstance(v, Scalar):
        return ("sc", getattr(v.data_type, "__name__", str(v.data_type)), _cell(v.value))
    return ("other", type(v).__name__, repr(v)[:300])


def norm_files(folder):
    out = {}
    if not folder or not os.path.isdir(folder):
        return out
    for n in sorted(os.listdir(folder)):
        p = os.path.join(folder, n)
        if n.endswith(".parquet"):
            import pandas as pd

            df = pd.read_parquet(p)
            rows = sorted((tuple(_cell(x) for x in r) for r in df.astype(object).values.tolist()), key=_sort_key)
            out[n] = (tuple(df.columns), rows)
        else:
            with open(p, encoding="utf-8", newline="") as f:
                lines = f.read().split("\n")
            out[n] = (lines[0] if lines else "", sorted(l for l in lines[1:] if l != ""))
    return out


def norm_exc(e):
    from .seams import is_injected

    code = None
    args = getattr(e, "args", ())
    if len(args) > 1 and isinstance(args[1], str):
        code = args[1]
    from .seams import stable

    return ("exc", type(e).__name__, code, is_injected(e), stable(str(e))[:300],
            getattr(e, "lino", None), getattr(e, "colno", None))


def call_api(api, kw):
    import vtlengine
    from vtlengine import API

    if api == "run":
        return vtlengine.run(**kw)
    if api == "semantic_analysis":
        kw = {k: v for k, v in kw.items() if k in ("script", "data_structures", "value_domains", "external_routines", "sdmx_mappings")}
        return vtlengine.semantic_analysis(**kw)
    if api == "prettify":
        return vtlengine.prettify(**kw)
    if api == "create_ast":
        return API.create_ast(**kw)
    if api == "validate_dataset":
        kw = {k: v for k, v in kw.items() if k in ("data_structures", "datapoints", "scalar_values")}
        return vtlengine.validate_dataset(**kw)
    if api == "generate_sdmx":
        kw = {k: v for k, v in kw.items() if k in ("script", "agency_id", "id", "version")}
        return vtlengine.generate_sdmx(**kw)
    if api == "run_sdmx":
        return vtlengine.run_sdmx(**kw)
    raise ValueError(api)


def norm_return(api, ret, kw):
    if api in ("run", "semantic_analysis", "run_sdmx"):
        out = {k: norm_value(v) for k, v in ret.items()}
        files = norm_files(str(kw["output_folder"])) if kw.get("output_folder") else None
        return ("ok", out, files)
    if api == "prettify":
        return ("ok", ret, None)
    if api == "create_ast":
        return ("ok", ast_repr(ret), None)
    if api == "validate_dataset":
        return ("ok", None, None)
    if api == "generate_sdmx":
        try:
            import msgspec

            return ("ok", msgspec.json.encode(ret).decode()[:20000], None)
        except Exception:
            return ("ok", repr(ret)[:20000], None)
    return ("ok", repr(ret)[:2000], None)


def ast_repr(node):
    """Deterministic structural rendering of an AST (dataclass fields, in order)."""
    import dataclasses

    def r(o):
        if dataclasses.is_dataclass(o) and not isinstance(o, type):
            return (type(o).__name__, tuple((f.name, r(getattr(o, f.name))) for f in dataclasses.fields(o)))
        if isinstance(o, (list, tuple)):
            return tuple(r(x) for x in o)
        if isinstance(o, dict):
            return tuple(sorted((str(k), r(v)) for k, v in o.items()))
        if isinstance(o, (str, int, float, bool)) or o is None:
            return o
        if isinstance(o, type):
            return "<class %s>" % o.__name__
        import enum

        if isinstance(o, enum.Enum):
            return "<enum %s.%s>" % (type(o).__name__, o.name)
        if isinstance(o, (set, frozenset)):
            return ("set", tuple(sorted(repr(r(x)) for x in o)))
        # never the default repr: it embeds the object's address
        return "<instance of %s %s>" % (type(o).__name__, tuple(sorted((k, repr(r(v))) for k, v in vars(o).items())) if hasattr(o, "__dict__") else "")

    return repr(r(node))


def execute_op(op, sandbox, opno=0, kw=None, on_raise=None):
    """Execute one API operation; returns the normalised outcome.  Never raises for engine
    errors (KeyboardInterrupt/MemoryError included: they are injected faults here)."""
    set_env(op, sandbox)
    if kw is None:
        kw = materialise(op, sandbox, opno)
    try:
        ret = call_api(op["api"], kw)
    except BaseException as e:  # noqa: BLE001
        out = norm_exc(e)
        if on_raise is not None:
            # the state the caller finds at the moment the call raises: the exception (and through its
            # traceback every frame of the call) is still referenced, no garbage collection has run
            on_raise()
        del e
        return out
    return norm_return(op["api"], ret, kw)


# ---------------------------------------------------------------- comparison

def _num_eq(a, b, tol):
    if a is None or b is None:
        return a is None and b is None
    if isinstance(a, bool) or isinstance(b, bool):
        return a == b
    if isinstance(a, (int, float)) and isinstance(b, (int, float)):
        if isinstance(a, float) or isinstance(b, float):
            if a == b:
                return True
            return abs(a - b) <= tol * max(1.0, abs(a), abs(b))
        return a == b
    return a == b


def same_rows(ra, rb, tol):
    if ra is None or rb is None:
        return ra is None and rb is None
    if len(ra) != len(rb):
        return False
    for x, y in zip(ra, rb):
        if len(x) != len(y):
            return False
        for p, q in zip(x, y):
            if not _num_eq(p, q, tol):
                return False
    return True


def same_value(a, b, tol=1e-9, ignore_column_order=False):
    if a[0] != b[0]:
        return False
    if a[0] == "ds":
        if a[1] != b[1]:
            return False
        if a[2] != b[2]:
            return False
        return same_rows(a[3], b[3], tol)
    if a[0] == "sc":
        return a[1] == b[1] and _num_eq(a[2], b[2], tol)
    return a == b


def diff_outcomes(a, b, tol=1e-9, compare_messages=False):
    """None if equal, else a short description of the first difference."""
    if a[0] != b[0]:
        return "status %s vs %s (%s | %s)" % (a[0], b[0], _brief(a), _brief(b))
    if a[0] == "exc":
        if a[1] != b[1] or a[2] != b[2]:
            return "exception %s/%s vs %s/%s" % (a[1], a[2], b[1], b[2])
        if compare_messages and a[4] != b[4]:
            return "exception message differs: %r vs %r" % (a[4][:120], b[4][:120])
        return None
    ra, rb = a[1], b[1]
    if isinstance(ra, dict) and isinstance(rb, dict):
        if sorted(ra) != sorted(rb):
            return "result keys %s vs %s" % (sorted(ra), sorted(rb))
        for k in sorted(ra):
            if not same_value(ra[k], rb[k], tol):
                return "value of %s differs: %s vs %s" % (k, _brief_val(ra[k]), _brief_val(rb[k]))
    elif ra != rb:
        return "return value differs: %r vs %r" % (str(ra)[:160], str(rb)[:160])
    fa, fb = a[2], b[2]
    if (fa is None) != (fb is None):
        return "output files present vs absent"
    if fa is not None:
        if sorted(fa) != sorted(fb):
            return "output files %s vs %s" % (sorted(fa), sorted(fb))
        for k in fa:
            if fa[k] != fb[k]:
                return "output file %s differs" % k
    return None


def _brief(o):
    if o[0] == "exc":
        return "%s %s %s" % (o[1], o[2], o[4][:100])
    return "ok"


def _brief_val(v):
    if v[0] == "ds":
        return "rows=%s" % (str(v[3])[:300],)
    return str(v)[:200]
