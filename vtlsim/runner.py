"""Check driver: runs a property's check module on a pool of zygote workers, confirms and
minimises violations, matches them against the committed known-findings file, writes the
replay files and the evidence file, and sets the exit status.

exit 0  property held on everything explored (KNOWN-FINDING lines allowed)
exit 1  a reproduced, minimised, not-known violation (VIOLATION property=<id> replay=<path>)
exit 2  harness error (never a verdict)
"""
import hashlib
import importlib
import json
import os
import sys
import time
import traceback

from . import paths, proc

CHECKS = {
    "C13": "vtlsim.checks.c13",
    "C15": "vtlsim.checks.c15",
    "C16": "vtlsim.checks.c16",
    "C17": "vtlsim.checks.c17",
    "C22": "vtlsim.checks.c22",
    "C23": "vtlsim.checks.c23",
    "C33": "vtlsim.checks.c33",
}

COMPONENTS = {
    "real": ["vtlengine API", "ASTConstructor/ASTVisitor", "DAGAnalyzer", "InterpreterAnalyzer (semantic)",
             "SQLTranspiler", "loaders/executor (duckdb_transpiler.io)", "DuckDB %s (in-process)",
             "pandas", "pysdmx model classes"],
    "stub": ["vtl_cpp_parser: Java ANTLR ParserInterpreter over the ATN extracted from /repo (stand-in)",
             "SDMX web service: in-process fake (only where a workload uses URLs)"],
}


MAX_REPORTED = 6


class Ctx:
    """What a check module gets."""

    def __init__(self, prop, tier, seed, pool, budget_s):
        self.prop = prop
        self.tier = tier
        self.seed = seed
        self.pool = pool
        self.budget_s = budget_s
        self.t0 = time.time()
        self.harness_errors = []
        self.module = CHECKS[prop]

    def remaining(self):
        return max(0.0, self.budget_s - (time.time() - self.t0))

    def map(self, fname, tasks, budget_s=None, per_task_timeout=900.0, force=False, min_tasks=0):
        """Run module.<fname>(task) for each task on the pool.  Returns list of (task, res) for
        tasks that ran and succeeded; harness errors are collected separately."""
        tasks = list(tasks)
        b = self.remaining() if budget_s is None else (budget_s if force else min(budget_s, self.remaining()))
        results, skipped = proc.run_tasks(self.pool, self.module, fname, tasks, b, per_task_timeout, min_tasks=min_tasks)
        out = []
        for i in sorted(results):
            r = results[i]
            if r.get("ok"):
                out.append((tasks[i], r["res"]))
            else:
                self.harness_errors.append({"task": _brief(tasks[i]), "error": r.get("harness_error", "?")[-1500:]})
        self.last_skipped = skipped
        self.tasks_run = getattr(self, "tasks_run", 0) + len(results)
        return out


def _brief(t):
    s = json.dumps(t, default=str)
    return s if len(s) < 300 else s[:300] + "..."


def load_known():
    try:
        with open(paths.KNOWN_FINDINGS, encoding="utf-8") as f:
            return json.load(f)
    except FileNotFoundError:
        return {"findings": [], "fixed": []}


def match_known(prop, violation, known):
    """A known finding matches on property + invariant + every key of its 'signature' being
    equal to the violation's signature (structural identification, not message text)."""
    sig = violation.get("signature", {})
    for f in known.get("findings", []):
        if f.get("property") != prop or f.get("invariant") != violation.get("invariant"):
            continue
        if all(sig.get(k) == v for k, v in f.get("signature", {}).items()):
            return f
    return None


def write_replay(prop, violation, seed):
    os.makedirs(paths.REPLAYS, exist_ok=True)
    body = json.dumps(violation, sort_keys=True, default=str)
    h = hashlib.sha256(body.encode()).hexdigest()[:10]
    p = os.path.join(paths.REPLAYS, "%s-%s-%s.json" % (prop, violation.get("invariant", "v"), h))
    with open(p, "w", encoding="utf-8") as f:
        json.dump(violation, f, indent=1, sort_keys=True, default=str)
    return p


def write_evidence(prop, tier, seed, level, coverage, wall, violations, assumptions):
    os.makedirs(paths.EVIDENCE, exist_ok=True)
    ev = {
        "property_id": prop, "tier": tier, "seed": int(seed), "level": level,
        "coverage": coverage, "assumptions": assumptions, "wall_s": round(wall, 2),
        "violations": int(violations),
    }
    p = os.path.join(paths.EVIDENCE, prop + ".json")
    tmp = p + ".tmp"
    with open(tmp, "w", encoding="utf-8") as f:
        json.dump(ev, f, indent=1, default=str)
    os.replace(tmp, p)
    return p


def replay_in_fresh_process(path):
    """Re-execute a replay file in a fresh interpreter; returns (reproduced, output)."""
    import subprocess

    env = dict(os.environ)
    env["PYTHONHASHSEED"] = "0"
    r = subprocess.run([sys.executable, "-m", "vtlsim", "replay", path], cwd=paths.VERIF, env=env,
                       capture_output=True, text=True, timeout=900)
    return (r.returncode == 1 and "VIOLATION property=" in r.stdout), (r.stdout + r.stderr)[-3000:]


def run_check(prop, tier, seed):
    t0 = time.time()
    mod = importlib.import_module(CHECKS[prop])
    budget = float(os.environ.get("VERIF_BUDGET_S", "0")) or (mod.BUDGET[tier])
    from .parser_standin import extract

    extract.ensure_classes()
    extract.ensure_tables()
    pool = proc.make_pool()
    ctx = Ctx(prop, tier, seed, pool, budget)
    try:
        res = mod.run(ctx)
    finally:
        pool.shutdown(wait=False, cancel_futures=True)
    violations = res.get("violations", [])
    # regression replays: minimised failing executions of defects that were repaired ("fixed:" entries
    # suppress nothing - if one of them fails again it is reported like any other violation)
    reg_dir = os.path.join(paths.VERIF, "regressions")
    reg_run = 0
    if os.path.isdir(reg_dir):
        for f in sorted(os.listdir(reg_dir)):
            if f.startswith(prop + "-") and f.endswith(".json"):
                reg_run += 1
                ok, out = replay_in_fresh_process(os.path.join(reg_dir, f))
                if ok:
                    with open(os.path.join(reg_dir, f), encoding="utf-8") as fh:
                        rec = json.load(fh)
                    rec["signature"] = dict(rec.get("signature") or {}, regression=f)
                    violations.append(rec)
    res["coverage"]["regression_replays_run"] = reg_run
    known = load_known()
    if os.path.isdir(paths.REPLAYS):
        for f in os.listdir(paths.REPLAYS):   # replay files belong to the run that wrote them
            if f.startswith(prop + "-") and f.endswith(".json"):
                os.unlink(os.path.join(paths.REPLAYS, f))
    new, printed_known, unreproduced = [], [], []
    not_replayed = 0
    seen_sig = set()
    for v in violations:
        key = (v.get("invariant"), json.dumps(v.get("signature", {}), sort_keys=True))
        kf = match_known(prop, v, known)
        if kf is not None:
            if key not in seen_sig:
                seen_sig.add(key)
                printed_known.append(kf)
            continue
        if key in seen_sig:
            continue
        seen_sig.add(key)
        if len(new) >= MAX_REPORTED:
            # enough reproduced, minimised violations to act on; the rest are counted, not replayed
            not_replayed += 1
            continue
        v["property"] = prop
        p = write_replay(prop, v, seed)
        ok, out = replay_in_fresh_process(p)
        if ok:
            new.append((v, p))
        else:
            unreproduced.append({"replay": p, "output": out[-1500:], "invariant": v.get("invariant"),
                                 "observed": str(v.get("observed"))[:300]})
    for kf in {json.dumps(k, sort_keys=True): k for k in printed_known}.values():
        print("KNOWN-FINDING: property=%s %s" % (prop, kf.get("what", kf.get("invariant"))))
    for v, p in new:
        print("VIOLATION property=%s replay=%s" % (prop, p))
        print("  invariant=%s %s" % (v.get("invariant"), str(v.get("observed"))[:400]))
    cov = res["coverage"]
    cov.setdefault("components", COMPONENTS)
    cov["harness_errors"] = len(ctx.harness_errors)
    cov["harness_error_samples"] = ctx.harness_errors[:3]
    cov["unreproduced_alarms"] = unreproduced[:5]
    cov["further_distinct_alarms_not_replayed"] = not_replayed
    cov["known_findings_matched"] = [k.get("id") for k in printed_known]
    wall = time.time() - t0
    if wall > 0:
        cov["runs_per_hour"] = int(cov.get("evaluations", 0) * 3600 / wall)
    write_evidence(prop, tier, seed, res["level"], cov, wall, len(new), res.get("assumptions", []))
    if new:
        return 1
    if unreproduced:
        print("HARNESS-ERROR: %d alarm(s) did not reproduce on replay; see evidence" % len(unreproduced))
        return 2
    total = cov.get("evaluations", 0)
    if not total:
        print("HARNESS-ERROR: the check evaluated nothing (budget exhausted before any scenario ran?)")
        return 2
    if ctx.harness_errors and (total == 0 or len(ctx.harness_errors) > max(2, getattr(ctx, "tasks_run", 0) // 100)):
        print("HARNESS-ERROR: %d harness errors (first: %s)" % (len(ctx.harness_errors), ctx.harness_errors[0]["error"][-600:]))
        return 2
    print("OK property=%s tier=%s seed=%s evaluations=%s distinct_nontrivial=%s wall=%.0fs" % (
        prop, tier, seed, cov.get("evaluations"), cov.get("distinct_nontrivial"), wall))
    return 0


def run_replay(path):
    with open(path, encoding="utf-8") as f:
        rec = json.load(f)
    prop = rec["property"]
    mod = importlib.import_module(CHECKS[prop])
    from . import bootstrap

    bootstrap.boot()
    got = mod.replay(rec)
    if got:
        for g in got:
            if g.get("invariant") == rec.get("invariant"):
                print("VIOLATION property=%s replay=%s" % (prop, path))
                print("  invariant=%s %s" % (g.get("invariant"), str(g.get("observed"))[:600]))
                print("  digest=%s" % g.get("digest"))
                return 1
        print("replay produced a different violation: %s" % [g.get("invariant") for g in got])
        return 3
    print("replay: no violation reproduced")
    return 0


def main(argv=None):
    argv = list(sys.argv[1:] if argv is None else argv)
    if not argv:
        print("usage: python -m vtlsim check <id> [--tier quick|thorough] | replay <file> | selftest <name>")
        return 2
    cmd = argv[0]
    try:
        if cmd == "check":
            prop = argv[1]
            tier = os.environ.get("VERIF_TIER") or "quick"
            if "--tier" in argv:
                tier = argv[argv.index("--tier") + 1]
            seed = int(os.environ.get("VERIF_SEED", "0") or 0)
            return run_check(prop, tier, seed)
        if cmd == "replay":
            return run_replay(argv[1])
        if cmd == "selftest":
            from . import selftest

            return selftest.main(argv[1:])
    except proc.HarnessError as e:
        print("HARNESS-ERROR: %s" % e)
        return 2
    except Exception:  # noqa: BLE001
        traceback.print_exc()
        print("HARNESS-ERROR: unexpected exception in the runner")
        return 2
    print("unknown command", cmd)
    return 2
