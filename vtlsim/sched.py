"""Deterministic baton-passing scheduler for real Python threads.

Exactly one client thread holds the baton.  `sys.settrace` delivers line events for frames
of the engine (files under <repo>/src/vtlengine); every such event is a pre-emption point,
and at lines that textually touch shared state opcode events are enabled so that a
read-modify-write inside one line can be split.  Which thread runs next is decided by a
seeded strategy (or by a recorded switch list on replay); nothing else is left to the OS."""
import hashlib
import os
import random
import re
import sys
import threading
import time

from . import paths

SHARED_RE = re.compile(
    r"_current_registry|set_current_registry|get_current_registry|VirtualCounter|dataset_output|"
    r"TimePeriodConfig|DECIMAL_(WIDTH|SCALE)|parser_lock|vtl_cpp_parser\.|de_ruleset_elements|"
    r"_initialized_connections|os\.environ|\bglobal\s|_representation|lru_cache|\bcls\.\w+\s*[+\-]?=")

PHASE_FUNCS = {"create_ast", "create_ast_with_comments", "visit_Start", "transpile", "execute_queries",
               "fetch_result", "configured_connection", "load_scheduled_datasets", "cleanup_scheduled_datasets",
               "create_dag", "ds_structure", "load_datasets", "render"}

_shared_lines = None
_shared_names = None
HOT_SPAN = 14

_MUTATORS = {"append", "add", "update", "pop", "clear", "setdefault", "extend", "remove", "discard", "insert",
             "popitem", "appendleft", "move_to_end"}


def shared_names():
    """Names of process-global state of the engine, found by an AST scan of /repo's current
    working tree (so that state *added* by a change is found too): module-level names that
    some function rebinds (`global`), mutates in place (subscript store, mutator method call),
    class attributes that a method assigns (`cls.x = ...`, `ClassName.x = ...`), and functions
    behind a cache decorator.  {name: [(file, why)]}"""
    global _shared_names
    if _shared_names is not None:
        return _shared_names
    import ast

    out = {}
    root = os.path.join(paths.REPO_SRC, "vtlengine")
    for base, _dirs, files in os.walk(root):
        for f in files:
            if not f.endswith(".py"):
                continue
            p = os.path.join(base, f)
            try:
                with open(p, encoding="utf-8") as fh:
                    tree = ast.parse(fh.read())
            except (OSError, SyntaxError):
                continue
            modlevel, classes = set(), set()
            for n in tree.body:
                if isinstance(n, (ast.Assign, ast.AnnAssign)):
                    for t in (n.targets if isinstance(n, ast.Assign) else [n.target]):
                        if isinstance(t, ast.Name):
                            modlevel.add(t.id)
                elif isinstance(n, ast.ClassDef):
                    classes.add(n.name)
            for fn in ast.walk(tree):
                if not isinstance(fn, (ast.FunctionDef, ast.AsyncFunctionDef)):
                    continue
                for d in fn.decorator_list:
                    if "cache" in ast.unparse(d):
                        out.setdefault(fn.name, []).append((p, "cache-decorator"))
                params = {a.arg for a in fn.args.args + fn.args.kwonlyargs + fn.args.posonlyargs}
                for n in ast.walk(fn):
                    if isinstance(n, ast.Global):
                        for g in n.names:
                            out.setdefault(g, []).append((p, "global"))
                    elif isinstance(n, ast.Call) and isinstance(n.func, ast.Attribute) and n.func.attr in _MUTATORS \
                            and isinstance(n.func.value, ast.Name) and n.func.value.id in modlevel and n.func.value.id not in params:
                        out.setdefault(n.func.value.id, []).append((p, "mutated-in-place"))
                    elif isinstance(n, ast.Call) and isinstance(n.func, ast.Attribute) and n.func.attr in _MUTATORS \
                            and isinstance(n.func.value, ast.Attribute) and isinstance(n.func.value.value, ast.Name) \
                            and (n.func.value.value.id == "cls" or n.func.value.value.id in classes):
                        out.setdefault(n.func.value.attr, []).append((p, "class-attribute-assigned"))       # cls.x.pop(...)
                    elif isinstance(n, (ast.Assign, ast.AugAssign, ast.Delete, ast.AnnAssign)):
                        tg = n.targets if isinstance(n, (ast.Assign, ast.Delete)) else [n.target]
                        for t in tg:
                            if isinstance(t, ast.Subscript) and isinstance(t.value, ast.Name) and t.value.id in modlevel \
                                    and t.value.id not in params:
                                out.setdefault(t.value.id, []).append((p, "item-assigned"))
                            elif isinstance(t, ast.Attribute) and isinstance(t.value, ast.Name) and \
                                    (t.value.id == "cls" or t.value.id in classes):
                                out.setdefault(t.attr, []).append((p, "class-attribute-assigned"))
                            elif isinstance(t, ast.Attribute) and isinstance(t.value, ast.Attribute) and t.value.attr == "__class__":
                                out.setdefault(t.attr, []).append((p, "class-attribute-assigned"))
                            elif isinstance(t, ast.Subscript) and isinstance(t.value, ast.Attribute) and isinstance(t.value.value, ast.Name) \
                                    and (t.value.value.id == "cls" or t.value.value.id in classes):
                                out.setdefault(t.value.attr, []).append((p, "class-attribute-assigned"))   # cls.x[k] = v
    _shared_names = out
    return out


def shared_lines():
    """{filename: set(line numbers)} of engine lines that touch process-global state: the
    textual pattern SHARED_RE plus every line mentioning a name found by shared_names()."""
    global _shared_lines
    if _shared_lines is None:
        out = {}
        sn = shared_names()
        plain = [n for n, why in sn.items() if len(n) > 2 and any(w[1] != "class-attribute-assigned" for w in why)]
        attrs = [n for n, why in sn.items() if len(n) > 2 and all(w[1] == "class-attribute-assigned" for w in why)]
        attr_files = {}
        for n in attrs:
            for (f, _w) in sn[n]:
                attr_files.setdefault(f, set()).add(n)
        pats = []
        if plain:
            pats.append(r"(?<![\w])(?:%s)(?![\w])" % "|".join(sorted(map(re.escape, plain))))
        if attrs:
            # class attributes: only in attribute position on a class object
            pats.append(r"\b(?:cls|[A-Z]\w*)\.(?:%s)\b" % "|".join(sorted(map(re.escape, attrs))))
        name_re = re.compile("|".join(pats)) if pats else None
        root = os.path.join(paths.REPO_SRC, "vtlengine")
        for base, _dirs, files in os.walk(root):
            for f in files:
                if not f.endswith(".py"):
                    continue
                p = os.path.join(base, f)
                try:
                    with open(p, encoding="utf-8") as fh:
                        for i, line in enumerate(fh, 1):
                            if line.lstrip().startswith("#"):
                                continue
                            if SHARED_RE.search(line) or (name_re is not None and name_re.search(line)):
                                out.setdefault(p, set()).add(i)
                            elif p in attr_files and re.search(r"\bself\.(?:%s)\b" % "|".join(sorted(attr_files[p])), line):
                                out.setdefault(p, set()).add(i)
                except OSError:
                    pass
        _shared_lines = out
    return _shared_lines


class Deadlock(Exception):
    pass


class StepCap(Exception):
    pass


class _Abort(BaseException):
    """Raised inside client threads to unwind them when the run is being torn down."""


class Sched:
    def __init__(self, seed, strategy=None, forced=None, max_steps=3_000_000, est_steps=20000):
        self.rng = random.Random(seed)
        self.strategy = strategy or {"kind": "random", "p": 0.005, "p_shared": 0.5}
        self.forced = list(forced) if forced is not None else None   # [(step, thread)] replay
        self._fi = 0
        self.threads = {}
        self.order = []
        self.current = None
        self.steps = 0
        self.max_steps = max_steps
        self.switches = []           # (step, from, to, file:line)
        self.main_evt = threading.Event()
        self.failure = None
        self.aborting = False
        self.shared = shared_lines()
        self.src_prefix = os.path.join(paths.REPO_SRC, "vtlengine") + os.sep
        self.shared_touch = hashlib.sha256()   # (thread, shared line) subsequence -> interleaving digest
        self.shared_events = 0
        self.in_window_switches = 0
        self.est_steps = est_steps
        # PCT
        if self.strategy["kind"] == "pct":
            d = self.strategy.get("d", 2)
            # the length of a run is not known in advance and varies over two orders of magnitude (a parse-only
            # call ~1e3 line events, a run() ~1e4): half of the change points are uniform over the estimate, half
            # log-uniform, so that short runs get change points inside them too
            import math

            def cp():
                if self.rng.random() < 0.5:
                    return self.rng.randrange(1, max(2, est_steps))
                return max(1, int(math.exp(self.rng.uniform(math.log(5), math.log(max(6, est_steps))))))
            self.change_points = sorted(cp() for _ in range(d))
            self.prio = {}
        self.locks = []
        self._rv = {"holder": None, "file": None, "line": 0, "ran": 0, "burst": 0}
        self._inserted = False
        self._ls = {"owner": None, "left": 0, "hunt": 0, "budget": 16}
        self.aligned_points = 0
        # threads blocked in a *real* wait (a Future, Condition, Queue, join ... that the engine or a change to
        # it introduced): the watchdog takes the baton away from such a thread, it re-enters when it wakes up
        self._wd_lock = threading.Lock()
        self._orphan_since = None
        self.real_waits = 0

    # ------------------------------------------------------------ thread management
    def spawn(self, name, fn):
        t = {"name": name, "state": "ready", "evt": threading.Event(), "fn": fn, "result": None,
             "blocked_on": None, "steps": 0, "lines": 0, "hot": 0, "hot_lines": []}
        self.threads[name] = t
        self.order.append(name)
        t["thread"] = threading.Thread(target=self._body, args=(t,), name=name, daemon=True)

    def _body(self, t):
        t["evt"].wait()
        t["evt"].clear()
        if self.aborting:
            t["state"] = "done"
            return
        sys.settrace(self._trace)
        try:
            try:
                t["result"] = ("ok", t["fn"]())
            except _Abort:
                t["result"] = ("aborted", None)
            except BaseException as e:  # noqa: BLE001
                t["result"] = ("exc", e)
        finally:
            sys.settrace(None)
            t["state"] = "done"
            if not self.aborting:
                self._handoff(t, finishing=True)

    def run(self, timeout=300.0):
        if self.strategy["kind"] == "pct":
            pr = list(range(len(self.order)))
            self.rng.shuffle(pr)
            self.prio = {n: p + len(self.order) for n, p in zip(self.order, pr)}
        for t in self.threads.values():
            t["thread"].start()
        first = self._pick_first()
        self.current = first
        self.threads[first]["evt"].set()
        deadline = time.monotonic() + timeout
        last_steps, stalled = -1, 0
        ok = False
        while True:
            if self.main_evt.wait(0.25):
                ok = True
                break
            if time.monotonic() > deadline:
                break
            if self.steps == last_steps:
                stalled += 1
                if stalled >= 6:          # no engine line executed for 1.5 s
                    self._watchdog()
            else:
                last_steps, stalled = self.steps, 0
        if not ok:
            self.failure = self.failure or TimeoutError("scheduler wall-clock timeout")
        if self.failure is not None:
            self._abort_all()
        return {n: t["result"] for n, t in self.threads.items()}

    _WAIT_FRAMES = {("threading.py", "wait"), ("threading.py", "acquire"), ("threading.py", "join"), ("threading.py", "_wait_for_tstate_lock"),
                    ("queue.py", "get"), ("queue.py", "put"), ("_base.py", "result"), ("_base.py", "exception"), ("_base.py", "wait"),
                    ("selectors.py", "select")}

    def _in_real_wait(self, frame):
        n = 0
        while frame is not None and n < 8:
            co = frame.f_code
            if co.co_filename.endswith("sched.py") and "vtlsim" in co.co_filename:
                return False          # parked by the scheduler itself
            if (os.path.basename(co.co_filename), co.co_name) in self._WAIT_FRAMES:
                return True
            frame = frame.f_back
            n += 1
        return False

    def _forced_to(self, origin):
        if self.forced is not None and self._fi < len(self.forced):
            ent = self.forced[self._fi]
            if (ent[2] if len(ent) > 2 else "point") == origin and ent[0] == self.steps:
                self._fi += 1
                return ent[1]
        return None

    def _watchdog(self):
        """Called from the scheduler's own thread when no engine line has run for a while."""
        with self._wd_lock:
            if self.failure is not None:
                return
            name = self.current
            if name is None:
                if self._orphan_since is not None and time.monotonic() - self._orphan_since > 15.0:
                    self.failure = Deadlock({n: (x["state"], x["blocked_on"]) for n, x in self.threads.items()})
                    self.main_evt.set()
                return
            t = self.threads[name]
            if t["state"] != "ready" or not self._in_real_wait(sys._current_frames().get(t["thread"].ident)):
                return
            t["state"] = "blocked"
            t["blocked_on"] = "real-wait"
            self.real_waits += 1
            cands = [n for n in self._runnable() if n != name]
            if not cands:
                self.current = None
                self._orphan_since = time.monotonic()
                return
            to = self._forced_to("blocked")
            if to is None or to not in cands:
                to = max(cands, key=lambda x: self.prio[x]) if self.strategy["kind"] == "pct" else self.rng.choice(cands)
            self.switches.append((self.steps, name, to, "real-wait", "blocked"))
            self.current = to
            self.threads[to]["evt"].set()

    def _reenter(self, me):
        """A thread that lost the baton while it was blocked in a real wait runs again: it takes the baton if
        nobody holds it, otherwise it queues like any other ready thread."""
        with self._wd_lock:
            me["state"] = "ready"
            me["blocked_on"] = None
            if self.current is None:
                self.current = me["name"]
                self._orphan_since = None
                self._forced_to("wake")
                self.switches.append((self.steps, None, me["name"], "wake", "wake"))
                return
        me["evt"].wait()
        me["evt"].clear()
        if self.aborting:
            self._park_forever()

    def _abort_all(self):
        # Parked threads stay parked (they are daemons of a process that is about to exit):
        # waking them would let several engine threads unwind concurrently, outside the baton.
        self.aborting = True

    @staticmethod
    def _park_forever():
        threading.Event().wait()

    def _pick_first(self):
        if self.forced is not None and self.forced and self.forced[0][0] == 0:
            self._fi = 1
            return self.forced[0][1]
        if self.strategy["kind"] == "pct":
            n = max(self.order, key=lambda x: self.prio[x])
        elif self.strategy["kind"] == "insert" and self.strategy.get("thread") in self.order:
            n = self.strategy["thread"]
        else:
            n = self.rng.choice(self.order)
        self.switches.append((0, None, n, "", "first"))
        return n

    def _runnable(self):
        return [n for n in self.order if self.threads[n]["state"] == "ready"]

    # ------------------------------------------------------------ baton
    def _handoff(self, t, finishing=False, to=None, where=""):
        """Give the baton to another runnable thread (chosen by the strategy unless `to`)."""
        if finishing and self.current != t["name"]:
            # finished without ever getting the baton back after a real wait: nothing to hand over
            if all(x["state"] == "done" for x in self.threads.values()):
                self.main_evt.set()
            return
        cands = [n for n in self._runnable() if n != t["name"]]
        if not cands:
            if all(x["state"] == "done" for x in self.threads.values()):
                self.main_evt.set()
                return
            if t["state"] == "ready":
                return          # nobody else can run: keep going
            if any(x["state"] == "blocked" and x["blocked_on"] == "real-wait" for x in self.threads.values()):
                # the only threads left are waiting for something real (which this thread may just have provided)
                with self._wd_lock:
                    self.current = None
                    self._orphan_since = time.monotonic()
                if not finishing:
                    t["evt"].wait()
                    t["evt"].clear()
                    if self.aborting:
                        self._park_forever()
                return
            self.failure = Deadlock({n: (x["state"], x["blocked_on"]) for n, x in self.threads.items()})
            self.main_evt.set()
            if not finishing:
                self._park_forever()
            return
        origin = "finish" if finishing else ("lock" if where.startswith("lock:") else "point")
        if to is None and self.forced is not None and self._fi < len(self.forced):
            # replay: hand-offs that do not come from a pre-emption point (a thread blocking on a
            # simulated lock, a thread finishing) are entries of the recorded switch list too
            ent = self.forced[self._fi]
            if (ent[2] if len(ent) > 2 else "point") == origin and ent[0] == self.steps:
                self._fi += 1
                to = ent[1]
        if to is None or to not in cands:
            if self.strategy["kind"] == "pct":
                to = max(cands, key=lambda x: self.prio[x])
            else:
                to = self.rng.choice(cands)
        self.switches.append((self.steps, t["name"], to, where, origin))
        self.current = to
        self.threads[to]["evt"].set()
        if not finishing:
            t["evt"].wait()
            t["evt"].clear()
            if self.aborting:
                self._park_forever()

    # ------------------------------------------------------------ pre-emption
    def _trace(self, frame, event, arg):
        fn = frame.f_code.co_filename
        if not fn.startswith(self.src_prefix):
            return None
        if self.strategy["kind"] == "phase" and frame.f_code.co_name in PHASE_FUNCS:
            self._point(frame, True, phase=True)
        return self._local

    def _local(self, frame, event, arg):
        try:
            return self._local2(frame, event, arg)
        except _Abort:
            raise
        except BaseException as e:  # noqa: BLE001 - a bug in the scheduler must never look like engine behaviour
            self.failure = RuntimeError("scheduler bug in trace function: %r" % (e,))
            self.main_evt.set()
            self._park_forever()

    def _local2(self, frame, event, arg):
        if event == "line":
            fn = frame.f_code.co_filename
            ln = frame.f_lineno
            sh = self.shared.get(fn)
            is_shared = sh is not None and ln in sh
            frame.f_trace_opcodes = is_shared
            self._point(frame, is_shared)
        elif event == "opcode":
            self._point(frame, True, opcode=True)
        return self._local

    def _point(self, frame, is_shared, opcode=False, phase=False):
        me = self.threads.get(threading.current_thread().name)
        if me is None:
            return
        if self.aborting:
            self._park_forever()
        if self.current != me["name"]:
            self._reenter(me)      # woke up from a real wait without the baton: no step is counted before it has it
        self.steps += 1
        me["steps"] += 1
        if self.steps > self.max_steps:
            self.failure = StepCap("step cap %d exceeded" % self.max_steps)
            self.main_evt.set()
            self._park_forever()
        if not opcode and not phase:
            # own line-event index of the thread, and whether this event lies within HOT_SPAN line events after the
            # thread touched process-global state (where a whole other call inserted here is most likely to matter)
            me["lines"] += 1
            if is_shared:
                me["hot"] = HOT_SPAN
            if me["hot"] > 0:
                me["hot"] -= 1
                if len(me["hot_lines"]) < 5000:
                    me["hot_lines"].append(me["lines"])
        if is_shared and not opcode:
            self.shared_events += 1
            self.shared_touch.update(("%s:%s:%s;" % (me["name"], os.path.basename(frame.f_code.co_filename), frame.f_lineno)).encode())
        # ---- replay
        if self.forced is not None:
            ent = self.forced[self._fi] if self._fi < len(self.forced) else None
            if ent is not None and ent[0] == self.steps and (ent[2] if len(ent) > 2 else "point") == "point":
                to = ent[1]
                self._fi += 1
                if to != me["name"]:
                    self._handoff(me, to=to, where=self._where(frame))
            return
        k = self.strategy["kind"]
        if k == "random":
            p = self.strategy["p_shared"] if is_shared else self.strategy["p"]
            if self.rng.random() < p:
                if is_shared:
                    self.in_window_switches += 1
                self._handoff(me, where=self._where(frame))
        elif k == "pct":
            if self.change_points and self.steps >= self.change_points[0]:
                self.change_points.pop(0)
                self.prio[me["name"]] = -self.steps      # lowest
                self._handoff(me, where=self._where(frame))
        elif k == "phase":
            if phase and self.rng.random() < self.strategy.get("p", 0.5):
                self._handoff(me, where=self._where(frame))
        elif k == "lockstep":
            # symmetric races: two threads on (nearly) the same code path are kept *aligned*.  When the running thread
            # arrives at the very (file, line) where the other one is parked, the other executes `period` lines, then
            # this one catches up, and so on - so both are inside every window of period+1 statements at the same time
            # (increment-then-read of a process-global counter, check-then-create of a shared name); whole-call insertion
            # and random switching reach such windows only by luck.  When the paths diverge (first-use initialisation
            # in one thread, different scripts) the running thread hunts for the other's position for a budget of line
            # events, then the other hunts with twice the budget, until they meet again.
            if not opcode and not phase:
                pos = (frame.f_code.co_filename, frame.f_lineno)
                me["pos"] = pos
                st = self._ls
                if st["owner"] == me["name"]:
                    st["left"] -= 1
                    if st["left"] > 0:
                        return
                    st["owner"] = None
                    st["hunt"] = 0
                    self._handoff(me, where=self._where(frame))
                    return
                others = [n for n in self._runnable() if n != me["name"]]
                if not others:
                    return
                o = self.threads[others[0]]
                if o.get("pos") == pos:
                    self.aligned_points += 1
                    st["budget"] = 16
                    st["hunt"] = 0
                    st["owner"] = o["name"]
                    st["left"] = self.strategy.get("period", 1)
                    self._handoff(me, to=o["name"], where=self._where(frame))
                else:
                    st["hunt"] += 1
                    if st["hunt"] >= st["budget"]:
                        st["hunt"] = 0
                        st["budget"] = min(st["budget"] * 2, 1 << 20)
                        self._handoff(me, to=o["name"], where=self._where(frame))
        elif k == "insert":
            # single insertion: thread `thread` runs until its `at_line`-th own line event, then every other thread
            # runs (one after the other, each to completion unless it blocks), then it resumes; no other pre-emption
            if not opcode and not phase and not self._inserted and me["name"] == self.strategy.get("thread") \
                    and me["lines"] >= self.strategy.get("at_line", 1 << 60):
                self._inserted = True
                self._handoff(me, where=self._where(frame))
        elif k == "rendezvous":
            # race-directed: a thread that reaches a shared-state line is held there (with probability q)
            # until another thread reaches a shared-state line of the same file, or has run `patience`
            # steps, or finishes; once two threads are inside shared-state code at the same time every
            # event of the next `burst` steps is a coin flip.  Small windows (a value stored on a class
            # and read back a few lines later) are reached this way; uniform random switching rarely
            # brings two threads into the same ten lines at once.
            st = self._rv
            if st["burst"] > 0:
                st["burst"] -= 1
                if self.rng.random() < 0.5:
                    self._handoff(me, where=self._where(frame))
                return
            if st["holder"] is not None and st["holder"] != me["name"]:
                # somebody is held at a shared line; I am the one running meanwhile
                st["ran"] += 1
                if is_shared and not opcode and frame.f_code.co_filename == st["file"] and \
                        (not self.strategy.get("same_line") or frame.f_lineno == st["line"]):
                    st["holder"] = None
                    st["burst"] = self.strategy.get("burst", 60)
                    if self.rng.random() < 0.5:
                        self._handoff(me, where=self._where(frame))
                elif st["ran"] > self.strategy.get("patience", 30000):
                    holder, st["holder"] = st["holder"], None
                    self._handoff(me, to=holder, where=self._where(frame))
                return
            if is_shared and not opcode and st["holder"] is None and self.rng.random() < self.strategy.get("q", 0.3):
                if len(self._runnable()) > 1:
                    st["holder"] = me["name"]
                    st["file"] = frame.f_code.co_filename
                    st["line"] = frame.f_lineno
                    st["ran"] = 0
                    self._handoff(me, where=self._where(frame))
                    if st["holder"] == me["name"]:
                        st["holder"] = None      # the others finished or blocked: carry on
            elif self.rng.random() < self.strategy.get("p", 1e-3):
                self._handoff(me, where=self._where(frame))

    @staticmethod
    def _where(frame):
        return "%s:%s" % (os.path.basename(frame.f_code.co_filename), frame.f_lineno)

    # ------------------------------------------------------------ results
    def schedule(self):
        """The executed switch list in replayable form."""
        return [(s, to, o) for (s, _frm, to, _w, o) in self.switches]

    def interleaving_digest(self):
        h = hashlib.sha256()
        for s in self.switches:
            h.update(repr((s[0], s[2])).encode())
        return h.hexdigest()[:16], self.shared_touch.hexdigest()[:16]


class SimLock:
    """Simulated threading.Lock / RLock understood by the scheduler."""

    def __init__(self, sched, name, reentrant):
        self.s = sched
        self.name = name
        self.reentrant = reentrant
        self.owner = None
        self.count = 0
        self.waiters = []
        self.acquisitions = 0
        self.contended = 0

    def acquire(self, blocking=True, timeout=-1):
        me = threading.current_thread().name
        t = self.s.threads.get(me)
        if t is None:
            return True
        if self.owner == me and self.reentrant:
            self.count += 1
            return True
        while self.owner is not None:
            if not blocking:
                return False
            self.contended += 1
            t["state"] = "blocked"
            t["blocked_on"] = self.name
            if me not in self.waiters:
                self.waiters.append(me)
            self.s._handoff(t, where="lock:" + self.name)
        self.owner = me
        self.count = 1
        self.acquisitions += 1
        return True

    def release(self):
        me = threading.current_thread().name
        if self.s.threads.get(me) is None:
            return
        self.count -= 1
        if self.count <= 0:
            self.owner = None
            self.count = 0
            for w in self.waiters:
                self.s.threads[w]["state"] = "ready"
                self.s.threads[w]["blocked_on"] = None
            self.waiters = []

    def __enter__(self):
        self.acquire()
        return self

    def __exit__(self, *a):
        self.release()

    def locked(self):
        return self.owner is not None


_LOCK_TYPES = (type(threading.Lock()), type(threading.RLock()))


def install_sim_locks(sched):
    """Replace every module-level threading.Lock/RLock of the engine by a simulated lock of the
    same kind (all namespaces that share one lock object share one simulated lock).
    Returns (restore function, list of simulated locks)."""
    replaced = []
    sims = {}
    for modname, mod in list(sys.modules.items()):
        if not modname.startswith("vtlengine") or mod is None:
            continue
        holders = [mod] + [c for c in vars(mod).values() if isinstance(c, type) and getattr(c, "__module__", None) == modname]
        for holder in holders:          # module-level locks and locks kept as class attributes
            for attr, val in list(vars(holder).items()):
                if isinstance(val, _LOCK_TYPES):
                    key = id(val)
                    if key not in sims:
                        sims[key] = SimLock(sched, attr, reentrant=isinstance(val, _LOCK_TYPES[1]))
                    replaced.append((holder, attr, val))
                    setattr(holder, attr, sims[key])

    def restore():
        for mod, attr, val in replaced:
            setattr(mod, attr, val)

    return restore, list(sims.values())
