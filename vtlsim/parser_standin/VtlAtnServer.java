// Stand-in for the pybind11/ANTLR4-C++ parser: runs ANTLR's own interpreters over the
// serialized ATNs extracted from /repo (see extract.py).  Protocol: >ii (mode, len) + utf-8 text  ->  >i len + json.
import org.antlr.v4.runtime.*;
import org.antlr.v4.runtime.atn.*;
import org.antlr.v4.runtime.tree.*;
import java.io.*;
import java.nio.charset.StandardCharsets;
import java.nio.file.*;
import java.util.*;

public class VtlAtnServer {
  static int[] ints(String f) throws Exception { return Files.readAllLines(Paths.get(f)).stream().filter(s->!s.isEmpty()).mapToInt(Integer::parseInt).toArray(); }
  static String unhex(String s){ if (s.equals("-")) return ""; byte[] b = new byte[s.length()/2]; for (int i=0;i<b.length;i++) b[i]=(byte)Integer.parseInt(s.substring(2*i,2*i+2),16); return new String(b, StandardCharsets.UTF_8); }
  static String[] strs(String f, boolean nullEmpty) throws Exception {
    List<String> l = new ArrayList<>(); for (String s: Files.readAllLines(Paths.get(f))) if(!s.isEmpty()) l.add(s);
    String[] r = new String[l.size()];
    for (int i=0;i<r.length;i++){ String s=unhex(l.get(i)); r[i]= (nullEmpty && s.isEmpty())?null:s; } return r; }
  static class AltCtx extends InterpreterRuleContext {
    int firstDec=-1, firstAlt=-1;
    AltCtx(ParserRuleContext p, int s, int r){ super(p,s,r); }
  }
  static class P extends ParserInterpreter {
    P(String g, Vocabulary v, Collection<String> rn, ATN atn, TokenStream in){ super(g,v,rn,atn,in); }
    @Override protected InterpreterRuleContext createInterpreterRuleContext(ParserRuleContext parent, int invokingStateNumber, int ruleIndex){ return new AltCtx(parent, invokingStateNumber, ruleIndex); }
    @Override protected int visitDecisionState(DecisionState p){ int alt = super.visitDecisionState(p); AltCtx c=(AltCtx)getContext(); if(c.firstDec<0 && !(p instanceof StarLoopEntryState && ((StarLoopEntryState)p).isPrecedenceDecision)){c.firstDec=p.decision;c.firstAlt=alt;} return alt; }
  }
  static void esc(String s, StringBuilder sb){ sb.append('"'); for(int i=0;i<s.length();i++){char c=s.charAt(i); switch(c){case '"':sb.append("\\\"");break;case '\\':sb.append("\\\\");break;case '\n':sb.append("\\n");break;case '\r':sb.append("\\r");break;case '\t':sb.append("\\t");break;default: if(c<0x20) sb.append(String.format("\\u%04x",(int)c)); else sb.append(c);} } sb.append('"'); }
  static void tok(Token t, StringBuilder sb){ sb.append('[').append(t.getType()).append(','); esc(t.getText(),sb); sb.append(',').append(t.getLine()).append(',').append(t.getCharPositionInLine()).append(']'); }
  static void dump(ParseTree t, StringBuilder sb){
    if (t instanceof TerminalNode){ sb.append("{\"t\":"); tok(((TerminalNode)t).getSymbol(), sb); sb.append('}'); return; }
    AltCtx c=(AltCtx)t;
    sb.append("{\"r\":").append(c.getRuleIndex()).append(",\"d\":").append(c.firstDec).append(",\"a\":").append(c.firstAlt);
    if (c.start!=null){ sb.append(",\"s\":"); tok(c.start,sb);} if (c.stop!=null){ sb.append(",\"e\":"); tok(c.stop,sb);} 
    sb.append(",\"c\":[");
    for (int i=0;i<t.getChildCount();i++){ if(i>0) sb.append(','); dump(t.getChild(i), sb);} sb.append("]}");
  }
  public static void main(String[] a) throws Exception {
    String dir=a[0];
    ATN latn = new ATNDeserializer().deserialize(ints(dir+"/lexer.atn"));
    ATN patn = new ATNDeserializer().deserialize(ints(dir+"/parser.atn"));
    List<String> rules = Arrays.asList(strs(dir+"/parser.rules", false));
    Vocabulary voc = new VocabularyImpl(strs(dir+"/lits", true), strs(dir+"/syms", true));
    List<String> lr=Arrays.asList(strs(dir+"/lexer.rules",false)), lc=Arrays.asList(strs(dir+"/lexer.channels",false)), lm=Arrays.asList(strs(dir+"/lexer.modes",false));
    DataInputStream in = new DataInputStream(new BufferedInputStream(System.in));
    DataOutputStream out = new DataOutputStream(new BufferedOutputStream(System.out));
    while (true) {
      int mode; try { mode = in.readInt(); } catch (EOFException e) { break; }
      int n = in.readInt(); byte[] buf = new byte[n]; in.readFully(buf);
      String text = new String(buf, StandardCharsets.UTF_8);
      final StringBuilder sb = new StringBuilder();
      final List<String> errs = new ArrayList<>();
      BaseErrorListener el = new BaseErrorListener(){ @Override public void syntaxError(Recognizer<?,?> r, Object off, int line, int col, String msg, RecognitionException e){ StringBuilder b=new StringBuilder(); b.append("{\"line\":").append(line).append(",\"col\":").append(col).append(",\"msg\":"); esc(msg,b); if(off instanceof Token){Token t=(Token)off; b.append(",\"text\":"); esc(t.getText(),b); b.append(",\"start\":").append(t.getStartIndex()).append(",\"stop\":").append(t.getStopIndex());} b.append('}'); errs.add(b.toString()); } };
      LexerInterpreter lex = new LexerInterpreter("VtlTokens.g4", voc, lr, lc, lm, latn, CharStreams.fromString(text));
      lex.removeErrorListeners(); lex.addErrorListener(el);
      CommonTokenStream ts = new CommonTokenStream(lex);
      P p = new P("Vtl.g4", voc, rules, patn, ts);
      p.removeErrorListeners(); p.addErrorListener(el);
      p.getInterpreter().setPredictionMode(mode==0?PredictionMode.SLL:PredictionMode.LL);
      String res;
      try {
        ParseTree tree = p.parse(0);
        sb.append("{\"tree\":"); dump(tree, sb);
        ts.fill(); sb.append(",\"comments\":["); boolean first=true;
        for (Token t: ts.getTokens()){ if(t.getChannel()==2){ if(!first) sb.append(','); first=false; tok(t,sb);} }
        sb.append("],\"errors\":["); sb.append(String.join(",", errs)); sb.append("]}");
        res = sb.toString();
      } catch (Throwable t) { StringBuilder b=new StringBuilder("{\"crash\":"); esc(String.valueOf(t),b); b.append('}'); res=b.toString(); }
      byte[] ob = res.getBytes(StandardCharsets.UTF_8);
      out.writeInt(ob.length); out.write(ob); out.flush();
    }
  }
}
