"""Extract the serialized ATNs, vocabularies and labelled-alternative tables of the
real grammar from the generated C++ sources in /repo's *current working tree*.

Output: <BUILD>/standin/tables-<sha>/ with
  lexer.atn parser.atn                      one int per line
  parser.rules lits syms lexer.rules lexer.channels lexer.modes   hex(utf-8) per line
  labels.json                               {table, type_map, rule_enum, rule_names, syms}
"""
import hashlib
import json
import os
import re
import shutil

from .. import paths


def _extract(path):
    src = open(path, encoding="utf-8").read()
    vecs = re.findall(r"std::vector<std::string>\{(.*?)\n    \}", src, re.S)
    out = []
    for v in vecs:
        items = re.findall(r'"((?:[^"\\]|\\.)*)"', v)
        out.append([bytes(i, "utf-8").decode("unicode_escape") for i in items])
    m = re.search(r"serializedATNSegment\[\] = \{(.*?)\};", src, re.S)
    atn = [int(x) for x in re.findall(r"-?\d+", m.group(1))]
    return out, atn


def _labels(rule_names):
    src = open(os.path.join(paths.CPP_DIR, "Vtl.cpp"), encoding="utf-8").read()
    bind = open(os.path.join(paths.CPP_DIR, "bindings.cpp"), encoding="utf-8").read()
    hdr = open(os.path.join(paths.CPP_DIR, "Vtl.h"), encoding="utf-8").read()
    m = re.search(r"enum \{\s*RuleStart.*?\};", hdr, re.S)
    rule_enum = {name: int(val) for name, val in re.findall(r"(Rule\w+) = (\d+)", m.group(0))}
    type_map = {}
    for cls, rule, alt in re.findall(
        r"g_type_map\[typeid\(Vtl::(\w+)Context\)\] = \{Vtl::(\w+), (-?\d+)\}", bind
    ):
        type_map[cls] = (rule_enum[rule], int(alt))
    funcs = [
        (mm.start(), mm.group(1), mm.group(2))
        for mm in re.finditer(r"^Vtl::(\w+)Context\* Vtl::(\w+)\((int precedence)?\) \{", src, re.M)
    ]
    table = {}
    for i, (s, _cls, fname) in enumerate(funcs):
        e = funcs[i + 1][0] if i + 1 < len(funcs) else len(src)
        body = src[s:e]
        if "enterRecursionRule" in body:
            prim, op, primd, opd = {}, {}, None, None
            cur_dec = cur_case = None
            for mm in re.finditer(
                r"switch \(getInterpreter<atn::ParserATNSimulator>\(\)->adaptivePredict\(_input, (\d+), _ctx\)\) \{"
                r"|case (\d+): \{"
                r"|_localctx = _tracker\.createInstance<(\w+)Context>\(_localctx\);"
                r"|auto newContext = _tracker\.createInstance<(\w+)Context>\(",
                body,
            ):
                d, c, p, o = mm.groups()
                if d:
                    cur_dec = int(d)
                elif c:
                    cur_case = int(c)
                elif p:
                    prim[cur_case] = p
                    primd = cur_dec
                elif o:
                    op[cur_case] = o
                    opd = cur_dec
            table[fname] = {"lr": True, "primary": [primd, prim], "op": [opd, op]}
        else:
            outer, pend = {}, None
            for mm in re.finditer(
                r"_localctx = _tracker\.createInstance<Vtl::(\w+)Context>\(_localctx\);|enterOuterAlt\(_localctx, (\d+)\);",
                body,
            ):
                c, k = mm.groups()
                if c:
                    pend = c
                elif k and pend:
                    outer[int(k)] = pend
                    pend = None
            if outer:
                table[fname] = {"lr": False, "outer": outer}
    used = set()
    for t in table.values():
        for d in [t["outer"]] if not t["lr"] else [t["primary"][1], t["op"][1]]:
            used.update(d.values())
    labelled = {c for c, (_r, a) in type_map.items() if a >= 0}
    missing = sorted(labelled - used)
    unknown = sorted(used - set(type_map))
    return {
        "table": table,
        "type_map": type_map,
        "rule_enum": rule_enum,
        "unresolved_labelled_classes": missing,
        "classes_not_in_type_map": unknown,
    }


def source_hash():
    h = hashlib.sha256()
    for f in ("Vtl.cpp", "VtlTokens.cpp", "Vtl.h", "bindings.cpp"):
        with open(os.path.join(paths.CPP_DIR, f), "rb") as fh:
            h.update(fh.read())
    return h.hexdigest()[:16]


def _hexlines(strs):
    return "\n".join(s.encode("utf-8").hex() or "-" for s in strs) + "\n"


def ensure_tables():
    """Return the tables directory for /repo's current sources, building it if absent."""
    sha = source_hash()
    root = os.path.join(paths.BUILD, "standin")
    os.makedirs(root, exist_ok=True)
    final = os.path.join(root, "tables-" + sha)
    if os.path.exists(os.path.join(final, "labels.json")):
        return final
    tmp = final + ".tmp%d" % os.getpid()
    shutil.rmtree(tmp, ignore_errors=True)
    os.makedirs(tmp)
    pv, patn = _extract(os.path.join(paths.CPP_DIR, "Vtl.cpp"))
    lv, latn = _extract(os.path.join(paths.CPP_DIR, "VtlTokens.cpp"))
    # parser: ruleNames, literalNames, symbolicNames; lexer: ruleNames, channelNames, modeNames, literalNames, symbolicNames
    assert len(pv) == 3 and len(lv) == 5, (len(pv), len(lv))
    open(os.path.join(tmp, "parser.atn"), "w").write("\n".join(map(str, patn)) + "\n")
    open(os.path.join(tmp, "lexer.atn"), "w").write("\n".join(map(str, latn)) + "\n")
    open(os.path.join(tmp, "parser.rules"), "w").write(_hexlines(pv[0]))
    open(os.path.join(tmp, "lits"), "w").write(_hexlines(pv[1]))
    open(os.path.join(tmp, "syms"), "w").write(_hexlines(pv[2]))
    open(os.path.join(tmp, "lexer.rules"), "w").write(_hexlines(lv[0]))
    open(os.path.join(tmp, "lexer.channels"), "w").write(_hexlines(lv[1]))
    open(os.path.join(tmp, "lexer.modes"), "w").write(_hexlines(lv[2]))
    lab = _labels(pv[0])
    lab["rule_names"] = pv[0]
    lab["syms"] = pv[2]
    lab["source_hash"] = sha
    json.dump(lab, open(os.path.join(tmp, "labels.json"), "w"))
    try:
        os.rename(tmp, final)
    except OSError:
        shutil.rmtree(tmp, ignore_errors=True)  # another process won the race
    # drop stale table dirs (other source hashes)
    for d in os.listdir(root):
        if d.startswith("tables-") and d != "tables-" + sha and ".tmp" not in d:
            shutil.rmtree(os.path.join(root, d), ignore_errors=True)
    return final


def ensure_classes():
    """Compile the Java server if its classes are missing or older than the source."""
    import subprocess

    src = os.path.join(os.path.dirname(os.path.abspath(__file__)), "VtlAtnServer.java")
    out = os.path.join(paths.BUILD, "standin", "classes")
    cls = os.path.join(out, "VtlAtnServer.class")
    if os.path.exists(cls) and os.path.getmtime(cls) >= os.path.getmtime(src):
        return out
    tmp = out + ".tmp%d" % os.getpid()
    shutil.rmtree(tmp, ignore_errors=True)
    os.makedirs(tmp)
    subprocess.run(["javac", "-nowarn", "-cp", paths.JAR, "-d", tmp, src], check=True)
    shutil.rmtree(out, ignore_errors=True)
    try:
        os.rename(tmp, out)
    except OSError:
        shutil.rmtree(tmp, ignore_errors=True)
    return out


if __name__ == "__main__":
    print(ensure_classes())
    print(ensure_tables())
