"""Python stand-in for `vtlengine.AST.Grammar._cpp_parser.vtl_cpp_parser`.

Same surface as bindings.cpp (parse, get_syntax_error, get_comments, get_input_text,
ParseNode, TerminalNode, token/rule constants).  Parsing is done by ANTLR's
ParserInterpreter (Java) over the ATN extracted from /repo; results are cached per text,
so the stand-in is a pure function of the text.

Modelled on purpose: bindings.cpp keeps the tree of the *last* parse() in one global and
hands out raw pointers into it.  Here every parse() bumps a global epoch and every node
remembers its epoch; touching a node of an older epoch is recorded in HAZARDS (in C++:
use-after-free).
"""
import atexit
import json
import os
import re
import struct
import subprocess
import sys
import threading
import types

from .. import paths
from . import extract

MODULE_NAME = "vtlengine.AST.Grammar._cpp_parser.vtl_cpp_parser"

_tables_dir = None
_classes_dir = None
RULE_NAMES = []
SYMS = []
TYPE_MAP = {}
INFO = {}

_proc = None
_proc_pid = None
_io_lock = threading.Lock()  # real lock: the JVM pipe is not part of the simulated system
CACHE = {}  # text -> decoded server response
STATS = {"jvm_requests": 0, "cache_hits": 0, "jvm_starts": 0}

HAZARDS = []  # (thread name, node epoch, current epoch)
_state = {"text": "", "comments": [], "error": None, "epoch": 0}
TAB_WIDTH = 4


def configure():
    """(Re)load tables for /repo's current sources."""
    global _tables_dir, _classes_dir, RULE_NAMES, SYMS, TYPE_MAP, INFO
    _classes_dir = extract.ensure_classes()
    _tables_dir = extract.ensure_tables()
    lab = json.load(open(os.path.join(_tables_dir, "labels.json")))
    RULE_NAMES = lab["rule_names"]
    SYMS = lab["syms"]
    TYPE_MAP = {k: tuple(v) for k, v in lab["type_map"].items()}
    INFO = {RULE_NAMES.index(f): t for f, t in lab["table"].items()}
    return lab


def _server():
    global _proc, _proc_pid
    if _proc is None or _proc_pid != os.getpid() or _proc.poll() is not None:
        _proc = subprocess.Popen(
            ["java", "-Xss64m", "-Xshare:auto", "-XX:TieredStopAtLevel=1", "-XX:+UseSerialGC",
             "-cp", paths.JAR + ":" + _classes_dir, "VtlAtnServer", _tables_dir],
            stdin=subprocess.PIPE, stdout=subprocess.PIPE, stderr=subprocess.DEVNULL,
            close_fds=True,
        )
        _proc_pid = os.getpid()
        STATS["jvm_starts"] += 1
        atexit.register(_kill, _proc, _proc_pid)
    return _proc


def _kill(p, pid):
    if os.getpid() == pid:
        try:
            p.kill()
        except Exception:
            pass


def shutdown():
    global _proc
    if _proc is not None and _proc_pid == os.getpid():
        _kill(_proc, _proc_pid)
    _proc = None


def _request(text, mode=0):
    key = text if mode == 0 else (mode, text)
    hit = CACHE.get(key)
    if hit is not None:
        STATS["cache_hits"] += 1
        return hit
    with _io_lock:
        p = _server()
        b = text.encode("utf-8", "surrogatepass")
        p.stdin.write(struct.pack(">ii", mode, len(b)) + b)
        p.stdin.flush()
        hdr = p.stdout.read(4)
        if len(hdr) < 4:
            raise RuntimeError("parser stand-in: JVM died")
        n = struct.unpack(">i", hdr)[0]
        res = json.loads(p.stdout.read(n).decode("utf-8"))
        STATS["jvm_requests"] += 1
    CACHE[key] = res
    return res


def preparse(texts):
    """Fill the cache (used by a zygote before it forks children)."""
    for t in texts:
        if isinstance(t, str):
            try:
                _request(t)
            except Exception:
                pass


class TerminalNode:
    __slots__ = ("symbol_type", "text", "line", "column")
    is_terminal = True

    def __init__(self, t):
        self.symbol_type, self.text, self.line, self.column = t


class ParseNode:
    is_terminal = False

    def __init__(self, d, epoch=None):
        self._epoch = _state["epoch"] if epoch is None else epoch
        self._d = d
        r = d["r"]
        self.rule_index = r
        self.alt_index = -1
        info = INFO.get(r)
        if info:
            cls = None
            if info["lr"]:
                if d["d"] == info["primary"][0]:
                    cls = info["primary"][1].get(str(d["a"]))
                elif d["d"] == info["op"][0]:
                    cls = info["op"][1].get(str(d["a"]))
            else:
                outer = info["outer"]
                if len(outer) == 1:
                    cls = next(iter(outer.values()))
                else:
                    cls = outer.get(str(d["a"])) if d["d"] >= 0 else outer.get("1")
            if cls is not None:
                self.rule_index, self.alt_index = TYPE_MAP[cls]
        self._children = None

    def _touch(self):
        if self._epoch != _state["epoch"]:
            HAZARDS.append((threading.current_thread().name, self._epoch, _state["epoch"]))

    @property
    def children(self):
        self._touch()
        if self._children is None:
            self._children = [
                TerminalNode(c["t"]) if "t" in c else ParseNode(c, self._epoch) for c in self._d["c"]
            ]
        return self._children

    @property
    def start_line(self):
        self._touch()
        return self._d["s"][2] if "s" in self._d else 0

    @property
    def start_column(self):
        self._touch()
        return self._d["s"][3] if "s" in self._d else 0

    @property
    def stop_line(self):
        self._touch()
        return self._d["e"][2] if "e" in self._d else 0

    @property
    def stop_column(self):
        self._touch()
        return self._d["e"][3] if "e" in self._d else 0

    @property
    def stop_text(self):
        self._touch()
        return self._d["e"][1] if "e" in self._d else ""

    @property
    def text(self):
        self._touch()

        def g(d):
            return d["t"][1] if "t" in d else "".join(g(c) for c in d["c"])

        return g(self._d)

    @property
    def ctx_id(self):
        return (self.rule_index, self.alt_index)


def _source_line_expanded(src, line_1based, col_1based):
    """Port of bindings.cpp:extract_source_line_expanded. Returns (line, remapped column)."""
    if line_1based < 1:
        return "", col_1based
    start, cur = 0, 1
    while cur < line_1based and start < len(src):
        if src[start] == "\n":
            cur += 1
        start += 1
    if cur != line_1based:
        return "", col_1based
    out = []
    outlen = 0
    orig_col = 1
    remapped = col_1based
    i = start
    while i < len(src) and src[i] != "\n":
        c = src[i]
        if orig_col == col_1based:
            remapped = outlen + 1
        if c == "\t":
            out.append(" " * TAB_WIDTH)
            outlen += TAB_WIDTH
        elif c != "\r":
            out.append(c)
            outlen += 1
        orig_col += 1
        i += 1
    if col_1based > orig_col:
        remapped = outlen + 1
    return "".join(out), remapped


PARSE_FAULT = {"calls": 0, "at": None, "kind": None, "fired": 0}


def arm_parse_fault(at=None, kind=None):
    """Fault injection at the parser seam: the `at`-th parse() call from now on fails the way the native
    call can fail (allocation failure -> MemoryError, interrupt -> KeyboardInterrupt), after do_parse has
    already reset the per-parse fields of its global state.  arm_parse_fault() disarms."""
    PARSE_FAULT.update(calls=0, at=at, kind=kind)


def parse(text):
    if PARSE_FAULT["at"] is not None:
        PARSE_FAULT["calls"] += 1
        if PARSE_FAULT["calls"] == PARSE_FAULT["at"]:
            PARSE_FAULT["at"] = None
            PARSE_FAULT["fired"] += 1
            # bindings.cpp:do_parse stores the text and clears comments / syntax error before it builds anything
            _state["text"] = text
            _state["epoch"] += 1
            _state["comments"] = []
            _state["error"] = None
            if PARSE_FAULT["kind"] == "kbdint":
                raise KeyboardInterrupt("(injected)")
            raise MemoryError("(injected)")
    res = _request(text)
    if "crash" in res:
        raise RuntimeError("parser stand-in crashed: " + res["crash"])
    _state["text"] = text
    _state["epoch"] += 1
    _state["comments"] = [
        {"type": c[0], "text": c[1], "line": c[2], "column": c[3]} for c in res["comments"]
    ]
    _state["error"] = None
    if res["errors"]:
        e = res["errors"][0]
        ul = 1
        if "start" in e and e["stop"] != -1 and e["stop"] >= e["start"]:
            ul = e["stop"] - e["start"] + 1
        src_line, col1 = _source_line_expanded(text, e["line"], e["col"] + 1)
        _state["error"] = {
            "line": e["line"],
            "column": col1 - 1,
            "message": e["msg"],
            "offending_text": e.get("text", ""),
            "source_line": src_line,
            "underline_length": ul,
        }
    return ParseNode(res["tree"])


def get_input_text():
    return _state["text"]


def get_comments():
    return [dict(c) for c in _state["comments"]]


def get_syntax_error():
    return dict(_state["error"]) if _state["error"] is not None else None


def reset_hazards():
    del HAZARDS[:]


def install():
    """Install the stand-in into sys.modules (before vtlengine is imported)."""
    configure()
    m = types.ModuleType(MODULE_NAME)
    m.ParseNode = ParseNode
    m.TerminalNode = TerminalNode
    m.parse = lambda text: parse(text)     # late-bound: the stand-in's parse may be instrumented
    m.get_input_text = get_input_text
    m.get_comments = get_comments
    m.get_syntax_error = get_syntax_error
    for i, s in enumerate(SYMS):
        if s:
            setattr(m, s, i)
    m.TOKEN_EOF = -1
    for i, r in enumerate(RULE_NAMES):
        setattr(m, "RULE_" + re.sub(r"(?<!^)(?=[A-Z])", "_", r).upper(), i)
    m.__vtlsim_standin__ = True
    sys.modules[MODULE_NAME] = m
    return m
