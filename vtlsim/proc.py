"""Process model: pool workers ("zygotes") that have imported vtlengine + stand-in but never
called the API, and fork one child per execution so that every execution starts from
pristine module state.  A child that does not answer within its watchdog is a harness
error, never a verdict."""
import faulthandler
import os
import pickle
import select
import signal
import struct
import sys
import time
import traceback


class HarnessError(Exception):
    pass


def in_child(fn, *args, timeout=120.0, **kwargs):
    """Run fn(*args, **kwargs) in a forked child; return its (picklable) result.

    Raises HarnessError on timeout, crash or an exception escaping fn itself."""
    r, w = os.pipe()
    sys.stdout.flush()
    sys.stderr.flush()
    pid = os.fork()
    if pid == 0:
        code = 0
        try:
            os.close(r)
            faulthandler.dump_traceback_later(max(1.0, timeout - 1.0), exit=True)
            try:
                out = ("ok", fn(*args, **kwargs))
            except BaseException as e:  # noqa: BLE001 - report, parent decides
                out = ("err", "".join(traceback.format_exception(type(e), e, e.__traceback__))[-6000:])
            try:
                data = pickle.dumps(out, protocol=4)
            except Exception as e:  # noqa: BLE001
                data = pickle.dumps(("err", "unpicklable result: %r" % (e,)))
            with os.fdopen(w, "wb") as f:
                f.write(struct.pack(">Q", len(data)))
                f.write(data)
        except BaseException:  # noqa: BLE001
            code = 3
        finally:
            os._exit(code)
    os.close(w)
    buf = bytearray()
    deadline = time.monotonic() + timeout
    need = None
    try:
        while True:
            left = deadline - time.monotonic()
            if left <= 0:
                os.kill(pid, signal.SIGKILL)
                os.waitpid(pid, 0)
                raise HarnessError("child timed out after %.0fs" % timeout)
            rl, _, _ = select.select([r], [], [], min(left, 1.0))
            if not rl:
                continue
            chunk = os.read(r, 1 << 20)
            if not chunk:
                break
            buf += chunk
            if need is None and len(buf) >= 8:
                need = struct.unpack(">Q", bytes(buf[:8]))[0]
            if need is not None and len(buf) >= 8 + need:
                break
    finally:
        os.close(r)
    _, status = os.waitpid(pid, 0)
    if need is None or len(buf) < 8 + need:
        raise HarnessError("child died without a result (status %r)" % (status,))
    kind, val = pickle.loads(bytes(buf[8:8 + need]))
    if kind == "err":
        raise HarnessError("exception in child harness code:\n" + val)
    return val


# ---------------------------------------------------------------- pool of zygotes

def _worker_init(repo, extra_env):
    os.environ.update(extra_env or {})
    if repo:
        os.environ["VERIF_REPO"] = repo
    from . import bootstrap

    bootstrap.boot()
    import gc

    gc.collect()
    gc.freeze()  # children are forked from here: keep the collector away from the shared heap


def _worker_call(modname, fname, task):
    import importlib

    t0 = time.time()
    mod = importlib.import_module(modname)
    try:
        res = getattr(mod, fname)(task)
        return {"ok": True, "res": res, "wall": time.time() - t0}
    except HarnessError as e:
        return {"ok": False, "harness_error": str(e)[-4000:], "wall": time.time() - t0}
    except BaseException as e:  # noqa: BLE001
        return {"ok": False, "harness_error": "".join(traceback.format_exception(type(e), e, e.__traceback__))[-4000:],
                "wall": time.time() - t0}


def make_pool(workers=None):
    import multiprocessing as mp
    from concurrent.futures import ProcessPoolExecutor

    workers = workers or int(os.environ.get("VERIF_WORKERS", "0")) or min(16, os.cpu_count() or 4)
    ctx = mp.get_context("spawn")
    return ProcessPoolExecutor(max_workers=workers, mp_context=ctx, initializer=_worker_init,
                               initargs=(os.environ.get("VERIF_REPO"), {"PYTHONHASHSEED": os.environ.get("PYTHONHASHSEED", "0")}))


def run_tasks(pool, modname, fname, tasks, budget_s, per_task_timeout=600.0, on_result=None,
              window=None, min_tasks=0):
    """Submit tasks lazily (keeps at most `window` in flight); stop submitting when the wall
    budget is spent.  Returns (results list aligned with the tasks that were run, n_skipped)."""
    from concurrent.futures import FIRST_COMPLETED, wait

    t0 = time.time()
    window = window or (pool._max_workers + 2)
    it = iter(enumerate(tasks))
    inflight = {}
    results = {}
    exhausted = False
    skipped = 0
    submitted = 0      # a slow machine must shrink the exploration, never reduce it to nothing
    while True:
        while not exhausted and len(inflight) < window:
            if time.time() - t0 > budget_s and submitted >= min_tasks:
                exhausted = True
                skipped = sum(1 for _ in it)
                break
            try:
                i, t = next(it)
            except StopIteration:
                exhausted = True
                break
            inflight[pool.submit(_worker_call, modname, fname, t)] = (i, time.time())
            submitted += 1
        if not inflight:
            break
        done, _ = wait(list(inflight), timeout=5.0, return_when=FIRST_COMPLETED)
        now = time.time()
        for f in done:
            i, _ts = inflight.pop(f)
            try:
                results[i] = f.result()
            except BaseException as e:  # noqa: BLE001  (BrokenProcessPool etc.)
                results[i] = {"ok": False, "harness_error": "pool: %r" % (e,), "wall": 0.0}
            if on_result:
                on_result(i, results[i])
        for f, (i, ts) in list(inflight.items()):
            if now - ts > per_task_timeout:
                inflight.pop(f)
                f.cancel()
                results[i] = {"ok": False, "harness_error": "task exceeded %.0fs" % per_task_timeout, "wall": now - ts}
    return results, skipped
