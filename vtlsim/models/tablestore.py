"""Abstract table-store reference model for C13.

Consumes the history of one run()'s connection (events produced by seams.classify at the
connection seam, independent of the DAG analyzer under test) and checks the
load/execute/release discipline.

Events: (kind, table, extra)
  CREATE t            loader's CREATE TABLE "t" (...)          -> LOAD(t) begins
  REGISTER/UNREGISTER v temp view of a DataFrame load
  INSERT t / UPDATE t normalize / PROBE t / QUERY               part of the current LOAD
  EXEC out reads      CREATE TABLE "out" AS <sql>; reads from DuckDB's own SQL parser
  UPDATE t repr       output representation applied in place   -> MUTATE(t)
  SELECT t / COPY t   fetch / file write of a result           -> FETCH(t)
  DROP t              release
  CLOSE
"""


def check_history(history, completed=True):
    """Returns (violations, stats).  A violation is (rule, table, detail).
    `completed=False`: the run raised; only the safety rules of the executed prefix apply."""
    v = []
    live = set()
    loads = {}
    drops = {}
    produced = []
    views = set()
    loading = None
    execs = [(i, e) for i, e in enumerate(history) if e[0] == "EXEC-ATTEMPT"]
    outputs = {e[1] for _i, e in execs}
    releases_before_last_stmt = 0
    noop_releases = 0
    last_exec_idx = execs[-1][0] if execs else -1
    closed = False
    for i, e in enumerate(history):
        kind, t, extra = e
        if kind == "CREATE":
            if t in outputs:
                v.append(("load-of-a-statement-output", t, "loader created a table that a statement of the script produces"))
            if t in live:
                v.append(("load-while-live", t, "input loaded while a table of that name is materialised"))
            loads[t] = loads.get(t, 0) + 1
            if loads[t] > 1:
                v.append(("input-loaded-twice", t, "input loaded %d times" % loads[t]))
            live.add(t)
            loading = t
        elif kind == "REGISTER":
            views.add(t)
        elif kind == "UNREGISTER":
            if t not in views:
                v.append(("unregister-unknown-view", t, ""))
            views.discard(t)
        elif kind == "INSERT":
            if t != loading:
                v.append(("insert-outside-load", t, "INSERT into %s while loading %s" % (t, loading)))
        elif kind == "UPDATE" and extra == "normalize":
            if t not in live:
                v.append(("normalize-dead-table", t, ""))
            later = [x[1] for j, x in execs if j < i and t in x[2]]
            if later:
                v.append(("normalize-after-reader", t, "input canonicalised after %s already read it" % later))
        elif kind == "EXEC-ATTEMPT":
            loading = None
            reads = [r for r in (extra or []) if r != "?"]   # '?': SQL DuckDB's parser rejects - reads unknown
            missing = [r for r in reads if r not in live]
            if missing:
                v.append(("statement-reads-unmaterialised", t, "statement producing %s reads %s which is not loaded/produced or already released" % (t, missing)))
            if t in live:
                v.append(("statement-output-already-live", t, ""))
        elif kind == "EXEC":
            live.add(t)
            produced.append(t)
        elif kind == "UPDATE" and extra == "repr":
            if t not in live:
                v.append(("mutate-dead-table", t, ""))
            later = [x[1] for j, x in execs if j > i and t in (x[2] or [])]
            if later:
                v.append(("mutated-before-last-reader", t, "output representation applied in place to %s before its readers %s ran" % (t, later)))
        elif kind in ("SELECT", "COPY"):
            if t is not None and t != "?" and t not in live:
                v.append(("fetch-of-unmaterialised", t, "%s of %s which is not materialised" % (kind, t)))
        elif kind == "PROBE":
            if t is not None and t != "?" and t not in live:
                v.append(("probe-of-unmaterialised", t, ""))
        elif kind == "DROP":
            if loading == t:
                # failure path of a loader: part of LOAD
                live.discard(t)
                loading = None
                continue
            if t not in live:
                if t not in outputs and t not in loads:
                    # e.g. an input *scalar* (inlined into the SQL, never a table): the scheduled
                    # DROP ... IF EXISTS is a no-op, not a double release
                    noop_releases += 1
                    continue
                v.append(("release-of-unmaterialised", t, "DROP of %s which is not materialised (double release, or release before production)" % t))
            else:
                live.discard(t)
                drops[t] = drops.get(t, 0) + 1
                later = [x[1] for j, x in execs if j > i and t in (x[2] or [])]
                if later:
                    v.append(("released-before-last-reader", t, "%s released before its readers %s ran" % (t, later)))
                if i < last_exec_idx:
                    releases_before_last_stmt += 1
        elif kind == "CLOSE":
            closed = True
            if not completed:
                continue
            for t2 in produced:
                if drops.get(t2, 0) != 1:
                    v.append(("intermediate-not-released-exactly-once", t2, "released %d times" % drops.get(t2, 0)))
            for t2, n in loads.items():
                if drops.get(t2, 0) > 1:
                    v.append(("input-released-twice", t2, ""))
            if views:
                v.append(("temp-view-left-registered", sorted(views)[0], ""))
    stats = {"loads": len(loads), "statements": len([e for e in history if e[0] == "EXEC"]), "releases_before_last_statement": releases_before_last_stmt,
             "closed": closed, "noop_releases_of_never_materialised_names": noop_releases}
    return v, stats
