"""Deep snapshots of caller-side arguments (C22).

snap(obj) renders everything a caller could observe about an argument: container
structure, key order, identity of mutable members, DataFrame labels/dtypes/index/attrs/flags
and a byte-exact rendering of the values, Paths by value, pysdmx structs by msgspec
builtins.  diff(a, b) returns the path of the first difference or None."""
import dataclasses
import math
from pathlib import PurePath


def _cell(x):
    if x is None:
        return ("None",)
    if isinstance(x, float):
        if math.isnan(x):
            return ("nan",)
        return ("f", x.hex())
    t = type(x).__name__
    try:
        import pandas as pd

        if x is pd.NA:
            return ("NA",)
        if x is pd.NaT:
            return ("NaT",)
    except Exception:
        pass
    if hasattr(x, "item") and not isinstance(x, (str, bytes)):
        try:
            y = x.item()
            if isinstance(y, float):
                return (t, "nan" if math.isnan(y) else y.hex())
            return (t, repr(y))
        except Exception:
            pass
    return (t, repr(x))


def snap_df(df):
    import pandas as pd

    idx = df.index
    return ("DataFrame",
            tuple((type(c).__name__, repr(c)) for c in df.columns),
            tuple(str(d) for d in df.dtypes),
            (type(idx).__name__, str(idx.dtype), tuple(_cell(v) for v in idx.tolist()), repr(idx.name)),
            repr(sorted(df.attrs.items(), key=repr)),
            bool(df.flags.allows_duplicate_labels),
            repr(df.columns.name),
            tuple(tuple(_cell(v) for v in row) for row in df.astype(object).values.tolist()),
            tuple(tuple(_cell(v) for v in (df[c].cat.categories.tolist() if isinstance(df[c].dtype, pd.CategoricalDtype) else ()))
                  for c in df.columns) if len(set(map(repr, df.columns))) == len(df.columns) else ())


def snap(o, with_identity=True, _depth=0):
    import pandas as pd

    ident = (lambda x: id(x)) if with_identity else (lambda x: 0)
    if _depth > 12:
        return ("deep", type(o).__name__)
    if isinstance(o, pd.DataFrame):
        return snap_df(o)
    if isinstance(o, pd.Series):
        return ("Series", str(o.dtype), tuple(_cell(v) for v in o.tolist()), repr(o.name))
    if isinstance(o, dict):
        return ("dict", tuple((repr(k), ident(v) if isinstance(v, (pd.DataFrame, dict, list)) else 0, snap(v, with_identity, _depth + 1))
                              for k, v in o.items()))
    if isinstance(o, (list, tuple)):
        return (type(o).__name__, tuple((ident(v) if isinstance(v, (pd.DataFrame, dict, list)) else 0, snap(v, with_identity, _depth + 1)) for v in o))
    if isinstance(o, PurePath):
        return ("Path", type(o).__name__, str(o))
    if isinstance(o, (str, int, float, bool, bytes)) or o is None:
        return _cell(o)
    # pysdmx PandasDataset: structure + data (+ other public attributes)
    if hasattr(o, "structure") and hasattr(o, "data") and isinstance(getattr(o, "data"), pd.DataFrame):
        rest = {}
        for k in ("attributes", "action", "reporting_period", "sort_keys", "short_urn"):
            if hasattr(o, k):
                try:
                    rest[k] = repr(getattr(o, k))
                except Exception:
                    pass
        return ("PandasDataset", ident(o.data), snap(o.structure, with_identity, _depth + 1), snap_df(o.data), repr(sorted(rest.items())))
    try:
        import msgspec

        if isinstance(o, msgspec.Struct):
            return ("Struct", type(o).__name__, repr(msgspec.to_builtins(o, enc_hook=repr)))
    except Exception:
        pass
    if dataclasses.is_dataclass(o) and not isinstance(o, type):
        return ("dataclass", type(o).__name__, tuple((f.name, snap(getattr(o, f.name), with_identity, _depth + 1)) for f in dataclasses.fields(o)))
    return ("obj", type(o).__name__, repr(o))


def diff(a, b, path="args"):
    """Path of the first difference between two snapshots, or None."""
    if a == b:
        return None
    if isinstance(a, tuple) and isinstance(b, tuple) and a and b and a[0] == b[0] and len(a) == len(b):
        tag = a[0]
        if tag == "dict" and len(a[1]) == len(b[1]):
            for (ka, ia, va), (kb, ib, vb) in zip(a[1], b[1]):
                if ka != kb:
                    return "%s: key order/keys changed (%s vs %s)" % (path, ka, kb)
                d = diff(va, vb, "%s[%s]" % (path, ka))
                if d:
                    return d
                if ia != ib:
                    return "%s[%s]: member object replaced by another object" % (path, ka)
        if tag == "dict":
            return "%s: keys %s -> %s" % (path, [k for k, _i, _v in a[1]], [k for k, _i, _v in b[1]])
        if tag in ("list", "tuple") and len(a[1]) == len(b[1]):
            for i, ((ia, va), (ib, vb)) in enumerate(zip(a[1], b[1])):
                d = diff(va, vb, "%s[%d]" % (path, i))
                if d:
                    return d
                if ia != ib:
                    return "%s[%d]: member object replaced" % (path, i)
        if tag == "DataFrame":
            names = ["", "columns", "dtypes", "index", "attrs", "flags", "columns.name", "values", "categories"]
            for i in range(1, len(a)):
                if a[i] != b[i]:
                    return "%s: DataFrame %s changed: %s -> %s" % (path, names[i], str(a[i])[:160], str(b[i])[:160])
        if tag == "PandasDataset":
            for i, nm in ((1, "data object"), (2, "structure"), (3, "data"), (4, "attributes")):
                if a[i] != b[i]:
                    if i == 3:
                        return diff(a[3], b[3], path + ".data")
                    return "%s: PandasDataset %s changed" % (path, nm)
    return "%s: %s -> %s" % (path, str(a)[:200], str(b)[:200])
