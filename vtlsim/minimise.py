"""Delta-debugging of an operation descriptor while the same invariant keeps failing:
drop statements, drop data rows, drop unused inputs, reset knobs.  Every candidate is judged
by the caller's `still_fails(op) -> bool` (which executes it in a pristine child)."""
import copy
import re


def _statements(script):
    # generated scripts have one statement per line; corpus scripts may not: split on ';'
    parts = [p for p in re.split(r"(?<=;)\s*\n?", script) if p.strip()]
    return parts


def _set_rows(spec, rows):
    s = dict(spec)
    if s["kind"] in ("df", "parquet_df"):
        s["rows"] = rows
    elif s["kind"] == "csv_text":
        lines = s["text"].rstrip("\n").split("\n")
        s["text"] = "\n".join([lines[0]] + rows) + "\n"
    return s


def _get_rows(spec):
    if spec["kind"] in ("df", "parquet_df"):
        return list(spec["rows"])
    if spec["kind"] == "csv_text":
        return spec["text"].rstrip("\n").split("\n")[1:]
    return None


def shrink_op(op, still_fails, max_tests=80, shrink_rows=True):
    best = copy.deepcopy(op)
    tests = [0]

    def attempt(cand):
        if tests[0] >= max_tests:
            return False
        tests[0] += 1
        try:
            return bool(still_fails(cand))
        except Exception:
            return False

    # 1. statements
    changed = True
    while changed and tests[0] < max_tests:
        changed = False
        st = _statements(best["script"])
        if len(st) <= 1:
            break
        for i in range(len(st) - 1, -1, -1):
            cand = copy.deepcopy(best)
            cand["script"] = "\n".join(st[:i] + st[i + 1:]) + "\n"
            if attempt(cand):
                best = cand
                changed = True
                break
    # 2. knobs
    for key in ("env", "kwargs"):
        for k in list((best.get(key) or {}).keys()):
            cand = copy.deepcopy(best)
            del cand[key][k]
            if attempt(cand):
                best = cand
    if best.get("output_folder"):
        cand = copy.deepcopy(best)
        cand["output_folder"] = False
        if attempt(cand):
            best = cand
    # 3. rows
    for name in (sorted((best.get("data") or {}).keys()) if shrink_rows else []):
        rows = _get_rows(best["data"][name])
        if not rows:
            continue
        # halves first, then single rows
        n = len(rows)
        while n > 1 and tests[0] < max_tests:
            half = rows[: n // 2]
            cand = copy.deepcopy(best)
            cand["data"][name] = _set_rows(best["data"][name], half)
            if attempt(cand):
                best = cand
                rows = half
                n = len(rows)
            else:
                break
        i = 0
        while i < len(rows) and len(rows) > 1 and tests[0] < max_tests:
            r2 = rows[:i] + rows[i + 1:]
            cand = copy.deepcopy(best)
            cand["data"][name] = _set_rows(best["data"][name], r2)
            if attempt(cand):
                best = cand
                rows = r2
            else:
                i += 1
    best["minimised"] = {"tests": tests[0]}
    return best
