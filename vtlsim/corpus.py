"""The upstream test corpus as operations: every tests/**/data/vtl/<code>.vtl with the
structures / CSVs / value domains found by the suite's naming convention.  Whether an entry
is 'valid' is decided by its reference run, not here."""
import glob
import json
import os

from . import paths

_cache = None


def discover():
    global _cache
    if _cache is not None:
        return _cache
    out = []
    tests = os.path.join(paths.REPO, "tests")
    for vtl in sorted(glob.glob(os.path.join(tests, "**", "data", "vtl", "*.vtl"), recursive=True)):
        base = os.path.dirname(os.path.dirname(vtl))
        code = os.path.basename(vtl)[:-4]
        structs = sorted(glob.glob(os.path.join(base, "DataStructure", "input", glob.escape(code) + "-*.json")))
        if not structs:
            continue
        data = {}
        ok = True
        for s in structs:
            try:
                with open(s, encoding="utf-8") as f:
                    st = json.load(f)
            except Exception:
                ok = False
                break
            csvf = os.path.join(base, "DataSet", "input", os.path.basename(s)[:-5] + ".csv")
            for d in st.get("datasets", []) if isinstance(st, dict) else []:
                if "name" in d:
                    data[d["name"]] = csvf if os.path.exists(csvf) else None
        if not ok:
            continue
        vds = sorted(glob.glob(os.path.join(base, "ValueDomain", "*.json")))
        sqls = sorted(glob.glob(os.path.join(base, "sql", "*.sql")))
        try:
            size = sum(os.path.getsize(p) for p in data.values() if p)
        except OSError:
            size = 0
        out.append({
            "id": os.path.relpath(vtl, tests)[:-4],
            "vtl": vtl,
            "structs": structs,
            "data": data,
            "vds": vds,
            "sqls": sqls,
            "bytes": size,
        })
    _cache = out
    return out


def as_op(entry, api="run", kwargs=None, env=None, output_folder=False):
    with open(entry["vtl"], encoding="utf-8") as f:
        script = f.read()
    kw = dict(kwargs or {})
    if entry["vds"]:
        kw.setdefault("value_domains", {"__paths__": entry["vds"]})
    if entry.get("sqls") and "eval" in script:
        routines = []
        for p in entry["sqls"]:
            try:
                with open(p, encoding="utf-8") as f:
                    routines.append({"name": os.path.basename(p)[:-4], "query": f.read()})
            except OSError:
                pass
        if routines:
            kw.setdefault("external_routines", routines)
    op = {
        "api": api,
        "corpus_id": entry["id"],
        "script": script,
        "structures": {"paths": entry["structs"]},
        "data": {k: ({"kind": "csv_path", "path": v} if v else {"kind": "none"}) for k, v in entry["data"].items()},
        "kwargs": kw,
        "output_folder": output_folder,
        "env": dict(env or {}),
    }
    return op
