"""Conservative 'fully determined by VTL semantics' filter (used by C15 and C33).

A script is kept only when nothing in it lets the result depend on something VTL leaves
open: no current_date / eval / random, and every analytic invocation has an explicit
`order by` whose components together with `partition by` number at least the largest
identifier count of any input dataset (so the ordering is total on the operand's key).
When unsure, exclude."""
import dataclasses
import re

_TEXT_EXCLUDE = re.compile(r"\bcurrent_date\b|\beval\s*\(|\brandom\s*\(", re.I)


def _walk(o, seen=None):
    if dataclasses.is_dataclass(o) and not isinstance(o, type):
        yield o
        for f in dataclasses.fields(o):
            yield from _walk(getattr(o, f.name))
    elif isinstance(o, (list, tuple)):
        for x in o:
            yield from _walk(x)
    elif isinstance(o, dict):
        for x in o.values():
            yield from _walk(x)


def max_identifiers(structures):
    """Largest identifier count over the input datasets (structures: VTL JSON dict or list of paths)."""
    import json

    best = 0
    docs = []
    if isinstance(structures, dict) and "paths" in structures:
        for p in structures["paths"]:
            try:
                with open(p, encoding="utf-8") as f:
                    docs.append(json.load(f))
            except Exception:
                return 99
    else:
        docs.append(structures)
    for d in docs:
        for ds in (d.get("datasets") or []) if isinstance(d, dict) else []:
            comps = ds.get("DataStructure") or []
            n = sum(1 for c in comps if str(c.get("role", "")).lower().startswith("identifier"))
            if not comps:
                return 99  # structure given indirectly (structure references): unsure
            best = max(best, n)
    return best


def fully_determined(script, structures):
    """(bool, reason)"""
    if _TEXT_EXCLUDE.search(script):
        return False, "current_date/eval/random"
    try:
        from vtlengine import API
        from vtlengine.AST import Analytic

        ast = API.create_ast(script)
    except Exception as e:  # noqa: BLE001
        return False, "no AST: %s" % type(e).__name__
    need = max_identifiers(structures)
    for n in _walk(ast):
        if isinstance(n, Analytic):
            if not n.order_by:
                return False, "analytic without order by"
            if n.partition_op not in (None, "by"):
                return False, "analytic partition except"
            cover = set(n.partition_by or []) | {o.component for o in n.order_by}
            if len(cover) < need:
                return False, "analytic ordering may have ties"
            if n.op in ("rank",):
                pass
    return True, ""
