"""Self-tests of the simulator itself.

setup            build the stand-in (javac, table extraction), smoke-run the engine, small determinism test
determinism [N]  N seeds x {same seed twice, another PYTHONHASHSEED in a fresh interpreter, another worker count}: event digests must agree
parser-standin   run /repo's unedited test-suite with the stand-in injected (fidelity of the stub parser)
"""
import hashlib
import json
import os
import random
import subprocess
import sys
import time

from . import paths


def _digest_scenarios(seeds):
    """Executed inside a booted process: one digest per seed covering seam events, outcomes,
    fault firing, storage-order permutation and (when available) the thread scheduler."""
    from . import gen, ops, proc, seams
    from .checks import c16

    out = {}
    for seed in seeds:
        rng = random.Random(seed)
        w = gen.generate(random.Random(seed), n_statements=rng.choice([2, 3, 4]), rows=4)
        op = gen.as_op(w, env={"VTL_USE_IN_MEMORY_DB": rng.choice(["0", "1"])}, output_folder=rng.random() < 0.3)
        c16._preparse([op])

        def child():
            sb = ops.Sandbox("det")
            try:
                h = hashlib.sha256()
                seams.SIM.reset(seed=seed, permute=seed * 31 + 1)
                seams.SIM.begin_op(0)
                oc = ops.execute_op(op, sb, 0)
                K = seams.SIM.k
                h.update(repr(oc).encode())
                h.update(seams.SIM.digest().encode())
                if K > 3:
                    k = 1 + (seed * 7919) % K
                    seams.SIM.reset(seed=seed, faults=[{"op": 0, "k": k, "kind": "oom", "when": "after"}])
                    seams.SIM.begin_op(0)
                    oc2 = ops.execute_op(op, sb, 1)
                    h.update(repr(oc2).encode())
                    h.update(seams.SIM.digest().encode())
                try:
                    from . import sched_scenarios

                    h.update(sched_scenarios.digest_for_selftest(seed).encode())
                except ImportError:
                    pass
                return h.hexdigest()
            finally:
                sb.cleanup()

        out[str(seed)] = proc.in_child(child, timeout=300)
    return out


def _fresh(seeds, hashseed):
    env = dict(os.environ)
    env["PYTHONHASHSEED"] = str(hashseed)
    code = ("import sys, json; sys.path.insert(0, %r); from vtlsim import bootstrap; bootstrap.boot(); "
            "from vtlsim import selftest; print('DIGESTS ' + json.dumps(selftest._digest_scenarios(%r)))" % (paths.VERIF, list(seeds)))
    r = subprocess.run([sys.executable, "-c", code], env=env, capture_output=True, text=True, timeout=1800, cwd=paths.VERIF)
    for line in r.stdout.splitlines():
        if line.startswith("DIGESTS "):
            return json.loads(line[8:])
    raise RuntimeError("determinism child failed:\n" + (r.stdout + r.stderr)[-3000:])


def determinism(n=6, base=1000, verbose=True):
    from concurrent.futures import ThreadPoolExecutor

    seeds = [base + i for i in range(n)]
    jobs = [("hashseed0-a", seeds, 0), ("hashseed0-b", seeds, 0), ("hashseed1", seeds, 1), ("hashseed12345", seeds, 12345)]
    # second "worker count": the same seeds split over two processes
    half = max(1, n // 2)
    jobs += [("split-1", seeds[:half], 0), ("split-2", seeds[half:], 7)]
    t0 = time.time()
    with ThreadPoolExecutor(max_workers=6) as ex:
        res = list(ex.map(lambda j: _fresh(j[1], j[2]), jobs))
    ref = res[0]
    bad = []
    for (name, _s, _h), r in zip(jobs[1:], res[1:]):
        for k, v in r.items():
            if ref.get(k) != v:
                bad.append((name, k, ref.get(k), v))
    if verbose:
        print("determinism: %d seeds x %d interpreters, %d mismatches, %.0fs" % (n, len(jobs), len(bad), time.time() - t0))
        for b in bad[:10]:
            print("  MISMATCH", b)
    return {"seeds": n, "interpreters": len(jobs), "mismatches": len(bad), "wall_s": round(time.time() - t0, 1)}


def setup():
    from .parser_standin import extract

    t0 = time.time()
    print("classes:", extract.ensure_classes())
    print("tables:", extract.ensure_tables())
    lab = json.load(open(os.path.join(extract.ensure_tables(), "labels.json")))
    if lab["unresolved_labelled_classes"] or lab["classes_not_in_type_map"]:
        print("HARNESS-ERROR: label table incomplete", lab["unresolved_labelled_classes"], lab["classes_not_in_type_map"])
        return 2
    env = dict(os.environ)
    env["PYTHONHASHSEED"] = "0"
    code = ("import sys; sys.path.insert(0, %r); from vtlsim import bootstrap; v = bootstrap.boot(); "
            "print(v.prettify('DS_r <- DS_1 + 1; /* c */'))" % paths.VERIF)
    r = subprocess.run([sys.executable, "-c", code], env=env, capture_output=True, text=True, timeout=300, cwd=paths.VERIF)
    if r.returncode != 0 or "DS_r" not in r.stdout:
        print("HARNESS-ERROR: engine smoke run failed\n" + (r.stdout + r.stderr)[-3000:])
        return 2
    d = determinism(3, verbose=True)
    print("setup done in %.0fs" % (time.time() - t0))
    return 0 if d["mismatches"] == 0 else 2


def parser_standin(extra_args=()):
    """Upstream suite with the stand-in.  Prints the pass/fail counts; the 71 pysdmx[xml] tests
    fail for lack of that extra, independently of the parser."""
    plug = os.path.join(paths.BUILD, "standin_plugin")
    os.makedirs(plug, exist_ok=True)
    with open(os.path.join(plug, "vtlsim_standin_plugin.py"), "w") as f:
        f.write("import sys\nsys.path.insert(0, %r)\nfrom vtlsim.parser_standin import shim\nshim.install()\n" % paths.VERIF)
    env = dict(os.environ)
    env["PYTHONPATH"] = plug + os.pathsep + paths.VERIF + os.pathsep + env.get("PYTHONPATH", "")
    env["PYTHONHASHSEED"] = "0"
    scratch = os.path.join(paths.scratch_root(), "standin-suite")
    os.makedirs(scratch, exist_ok=True)
    env["VTL_TEMP_DIRECTORY"] = scratch
    junit = os.path.join(scratch, "junit.xml")
    cmd = [sys.executable, "-m", "pytest", "-q", "-p", "vtlsim_standin_plugin", "-p", "no:cacheprovider",
           "-n", os.environ.get("VERIF_SUITE_WORKERS", "8"), "--timeout=900", "-o", "addopts=", "--junitxml=" + junit, "tests"]
    subprocess.run(cmd, cwd=paths.REPO, env=env, capture_output=True, text=True)
    import shutil
    import xml.etree.ElementTree as ET

    passed = failed_xml = 0
    failed = []
    skipped = 0
    for tc in ET.parse(junit).iter("testcase"):
        kids = list(tc)
        bad = [k for k in kids if k.tag in ("failure", "error")]
        if any(k.tag == "skipped" for k in kids):
            skipped += 1
        elif not bad:
            passed += 1
        else:
            text = " ".join((k.get("message") or "") + (k.text or "") for k in bad)
            if "pysdmx[xml]" in text or "xml extra" in text.lower() or "lxml" in text or "sdmxschemas" in text or "xmltodict" in text:
                failed_xml += 1
            else:
                failed.append("%s::%s" % (tc.get("classname"), tc.get("name")))
    shutil.rmtree(scratch, ignore_errors=True)
    res = {"passed": passed, "failed_other": len(failed), "failed_for_missing_pysdmx_xml_extra": failed_xml, "skipped": skipped,
           "failed_other_names": failed[:40]}
    print(json.dumps(res, indent=1))
    out = os.path.join(paths.BUILD, "standin_suite_result.json")
    with open(out, "w") as f:
        json.dump(res, f, indent=1)
    return 0


def main(argv):
    if not argv:
        print(__doc__)
        return 2
    if argv[0] == "setup":
        return setup()
    if argv[0] == "determinism":
        n = int(argv[1]) if len(argv) > 1 else 8
        d = determinism(n)
        return 0 if d["mismatches"] == 0 else 2
    if argv[0] == "parser-standin":
        return parser_standin(argv[1:])
    print(__doc__)
    return 2
