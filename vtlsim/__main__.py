import os
import sys

if os.environ.get("PYTHONHASHSEED") is None:
    # hash order is a source of nondeterminism (set iteration in AST/DAG, networkx): fix it
    # for replay; the C15/determinism self-tests vary it on purpose in fresh interpreters.
    os.environ["PYTHONHASHSEED"] = "0"
    os.execv(sys.executable, [sys.executable, "-m", "vtlsim"] + sys.argv[1:])

from vtlsim.runner import main

sys.exit(main())
