"""Process bootstrap: pin native thread pools, put /repo/src on sys.path, install the
parser stand-in and the connection seam, then import vtlengine.  Idempotent."""
import os
import sys

_done = False


def pin_env():
    for k in ("OMP_NUM_THREADS", "OPENBLAS_NUM_THREADS", "MKL_NUM_THREADS", "NUMEXPR_NUM_THREADS",
              "VECLIB_MAXIMUM_THREADS", "ARROW_NUM_THREADS", "ARROW_IO_THREADS"):
        os.environ.setdefault(k, "1")
    os.environ.setdefault("MEANINGFUL_DATA_VTLENGINE_VERIF", "1")


def boot(install_seams=True):
    """Returns the vtlengine module; everything patched before its import."""
    global _done
    from . import paths

    if _done:
        import vtlengine
        return vtlengine
    pin_env()
    if paths.REPO_SRC not in sys.path:
        sys.path.insert(0, paths.REPO_SRC)
    from .parser_standin import shim

    shim.install()
    if install_seams:
        from . import seams

        seams.install_connect_seam()
    import vtlengine  # noqa: F401

    if install_seams:
        from . import seams

        seams.install_engine_seams()
    _done = True
    return vtlengine
