"""Seams owned by the simulator.

* `duckdb.connect` -> SimConnection (numbered, logged, faultable calls; storage-order
  permutation of materialised tables).
* `uuid.uuid4` as seen by Config.config -> deterministic ids.
* `open` as seen by duckdb_transpiler.io._io and API._InternalApi -> counted/faultable.
* pysdmx network entry points -> in-process fake peer (see fakepeer.py).

Everything is driven by the module-level `SIM` object, which a scenario resets and
configures.  No PRNG draw or clock read happens in logging paths.
"""
import builtins
import errno
import hashlib
import json
import os
import re
import threading
import weakref

import duckdb

_real_connect = duckdb.connect
_WS = re.compile(r"\s+")
PATH_SUBST = []  # (real prefix, stable token): sandbox roots contain the pid, logs must not


def stable(text):
    for a, b in PATH_SUBST:
        if a in text:
            text = text.replace(a, b)
    return text


class InjectedFault(Exception):
    """Marker mixin is not used: injected faults are the real exception classes the engine
    would meet in production; they are recognised by the text '(injected)'."""


FAULT_KINDS = {
    # kind: (factory, applies_to)   applies_to: 'conn' seam calls and/or 'file' seam calls
    "io_nospace": (lambda: duckdb.IOException("IO Error: Could not write file: No space left on device (injected)"), "conn"),
    "io_read": (lambda: duckdb.IOException("IO Error: Could not read from file: Input/output error (injected)"), "conn"),
    "oom": (lambda: duckdb.OutOfMemoryException("Out of Memory Error: failed to allocate block (injected)"), "conn"),
    "interrupt": (lambda: duckdb.InterruptException("INTERRUPT Error: Interrupted! (injected)"), "conn"),
    "conn_closed": (lambda: duckdb.ConnectionException("Connection Error: Connection already closed! (injected)"), "conn"),
    "internal": (lambda: duckdb.InternalException("INTERNAL Error: Attempted to access index out of range (injected)"), "conn"),
    "memerr": (lambda: MemoryError("(injected)"), "any"),
    "kbdint": (lambda: KeyboardInterrupt("(injected)"), "any"),
    "os_enospc": (lambda: OSError(errno.ENOSPC, "No space left on device (injected)"), "file"),
    "os_eio": (lambda: OSError(errno.EIO, "Input/output error (injected)"), "file"),
    "os_eacces": (lambda: PermissionError(errno.EACCES, "Permission denied (injected)"), "file"),
    "os_emfile": (lambda: OSError(errno.EMFILE, "Too many open files (injected)"), "file"),
    "net_timeout": (lambda: TimeoutError("timed out (injected)"), "net"),
    "net_reset": (lambda: ConnectionResetError(errno.ECONNRESET, "Connection reset by peer (injected)"), "net"),
}


def is_injected(exc) -> bool:
    seen = set()
    while exc is not None and id(exc) not in seen:
        seen.add(id(exc))
        if "(injected)" in str(exc) or "(injected)" in repr(getattr(exc, "args", "")):
            return True
        exc = exc.__cause__ or exc.__context__
    return False


class Sim:
    """Per-process simulator state for the seams."""

    def __init__(self):
        self.reset()

    def reset(self, *, seed=0, faults=None, permute=None, perm_intermediates=False,
              record_sql=False, explicit_perms=None):
        self.events = []          # (seq, thread, op, k, kind, detail)
        self.seq = 0
        self.op = 0               # current operation index (single-threaded scenarios)
        self.k = 0                # seam-call index within the operation
        self.faults = {}          # (op, k) -> (kind, when)   when in {'instead','after'}
        for f in faults or []:
            self.faults[(f["op"], f["k"])] = (f["kind"], f.get("when", "instead"))
        self.fired = []           # (op, k, kind, when, seam kind, detail)
        self.conns = []           # weakrefs to SimConnection
        self.conn_count = 0
        self.uuid_ctr = 0
        self.seed = seed
        self.permute_salt = permute      # None = no storage-order permutation
        self.perm_intermediates = perm_intermediates
        self.explicit_perms = explicit_perms or {}   # table -> list of rowids
        self.permuted = []        # (table, nrows)
        self.record_sql = record_sql
        self.sql_log = []         # full SQL of CTAS statements (for reference executions)
        self.thread_names = False
        self.hold = []            # strong refs a check may add on purpose (never by seams)
        self.histories = []       # one list of model events per connection (kept after the proxy dies)
        self.shadow = False       # C13: replay everything except releases on a second connection
        self.shadow_tables = {}   # table -> (columns, rows) read from the shadow at close
        self.initial_threads_from_knob = os.environ.get("VERIF_DUCKDB_DEFAULT_POOL") != "1"

    # ---- operations
    def begin_op(self, index):
        self.op = index
        self.k = 0

    # ---- the one place where a seam call is numbered, logged and possibly failed
    def step(self, kind, detail="", family="conn"):
        self.seq += 1
        self.k += 1
        th = threading.current_thread().name if self.thread_names else ""
        d = _WS.sub(" ", stable(str(detail)))[:160]
        self.events.append((self.seq, th, self.op, self.k, kind, d))
        f = self.faults.get((self.op, self.k))
        if f is not None:
            fkind, when = f
            fam = FAULT_KINDS[fkind][1]
            if fam == "any" or fam == family:
                if when == "instead":
                    self.fired.append((self.op, self.k, fkind, when, kind, d))
                    raise FAULT_KINDS[fkind][0]()
                return (fkind, kind, d)
        return None

    def after(self, token):
        """Second half of an 'after' fault: the call happened, the acknowledgement is lost."""
        if token is not None:
            fkind, kind, d = token
            self.fired.append((self.op, self.k, fkind, "after", kind, d))
            raise FAULT_KINDS[fkind][0]()

    def digest(self):
        h = hashlib.sha256()
        for e in self.events:
            h.update(repr(e).encode())
        for f in self.fired:
            h.update(repr(f).encode())
        return h.hexdigest()

    def next_uuid_hex(self):
        self.uuid_ctr += 1
        return hashlib.sha256(("%d:%d" % (self.seed, self.uuid_ctr)).encode()).hexdigest()[:32]

    # ---- ledger helpers
    def live_open_connections(self):
        out = []
        for w in self.conns:
            c = w()
            if c is not None and not c._probe_closed():
                out.append(c)
        return out


SIM = Sim()

_analysis_conn = None
_analysis_pid = None


def _analysis():
    global _analysis_conn, _analysis_pid
    if _analysis_conn is None or _analysis_pid != os.getpid():
        _analysis_conn = _real_connect(":memory:", config={"threads": 1})
        _analysis_pid = os.getpid()
    return _analysis_conn


def sql_reads(select_sql):
    """Base tables read by a SELECT, from DuckDB's own parser (no catalog needed)."""
    c = _analysis()
    try:
        js = json.loads(c.execute("SELECT json_serialize_sql(?)", [select_sql]).fetchone()[0])
    except Exception:
        js = {"error": True}
    if js.get("error"):
        try:
            return sorted(set(c.get_table_names(select_sql)))
        except Exception:
            return ["?"]
    names, ctes = set(), set()

    def walk(o):
        if isinstance(o, dict):
            if o.get("type") == "BASE_TABLE" and o.get("table_name"):
                names.add(o["table_name"])
            cm = o.get("cte_map")
            if isinstance(cm, dict):
                for e in cm.get("map", []):
                    ctes.add(e.get("key"))
            for v in o.values():
                walk(v)
        elif isinstance(o, list):
            for v in o:
                walk(v)

    walk(js)
    return sorted(names - ctes)


_RE_CTAS = re.compile(r'\s*CREATE TABLE "([^"]+)" AS (.*)$', re.S)
_RE_CREATE = re.compile(r'\s*CREATE TABLE "([^"]+)" \(')
_RE_DROP = re.compile(r'\s*DROP TABLE IF EXISTS "([^"]+)"')
_RE_UPDATE = re.compile(r'\s*UPDATE "([^"]+)" SET (.*)$', re.S)
_RE_INSERT = re.compile(r'\s*INSERT INTO "([^"]+)"')
_RE_COPY = re.compile(r"\s*COPY (.*?) TO '([^']*)'", re.S)
_RE_FROM1 = re.compile(r'FROM "([^"]+)"\s*(LIMIT 0)?\s*$')


def classify(sql):
    """Map one SQL text to a history event (kind, table, extra) for the table-store model."""
    m = _RE_CTAS.match(sql)
    if m:
        return ("EXEC", m.group(1), sql_reads(m.group(2)))
    m = _RE_CREATE.match(sql)
    if m:
        return ("CREATE", m.group(1), None)
    m = _RE_DROP.match(sql)
    if m:
        return ("DROP", m.group(1), None)
    m = _RE_UPDATE.match(sql)
    if m:
        return ("UPDATE", m.group(1), "normalize" if "vtl_period_normalize" in m.group(2) else "repr")
    m = _RE_INSERT.match(sql)
    if m:
        return ("INSERT", m.group(1), None)
    m = _RE_COPY.match(sql)
    if m:
        src = m.group(1)
        t = re.search(r'FROM "([^"]+)"\)?\s*$', src) or re.match(r'"([^"]+)"$', src.strip())
        return ("COPY", t.group(1) if t else "?", m.group(2))
    s = sql.lstrip()
    if s.startswith("SELECT"):
        m = _RE_FROM1.search(s)
        if m:
            if m.group(2):
                return ("PROBE", m.group(1), "limit0")
            if s.startswith("SELECT COUNT(*)"):
                return ("PROBE", m.group(1), "count")
            return ("SELECT", m.group(1), None)
        if s.startswith("SELECT EXISTS"):
            t = re.search(r'FROM "([^"]+)"', s)
            return ("PROBE", t.group(1) if t else "?", "exists")
        return ("QUERY", None, None)
    if s.startswith("SET ") or s.startswith("SET\n"):
        return ("SET", None, None)
    if s.startswith("DESCRIBE"):
        return ("DESCRIBE", None, None)
    if "CREATE OR REPLACE MACRO" in s or "CREATE MACRO" in s or "CREATE TYPE" in s or "CREATE OR REPLACE FUNCTION" in s:
        return ("MACROS", None, None)
    return ("OTHER", None, None)


class SimConnection:
    """Proxy around a real DuckDB connection.  Holds the only strong reference to it."""

    def __init__(self, real, database, role):
        self._c = real
        self._database = database
        self._role = role
        self._id = SIM.conn_count
        self._closed_by_engine = False
        self._pending_perm = []       # tables loaded and not yet permuted
        self._loading = None
        self.history = []             # model events for C13: (kind, table, extra)
        SIM.histories.append(self.history)
        self._shadow = None
        if SIM.shadow and role == "run":
            self._shadow = _real_connect(":memory:", config={"threads": 1})
        SIM.conns.append(weakref.ref(self))

    # -- probing (ledger); never logged
    def _probe_closed(self):
        try:
            self._c.execute("SELECT 1")
            return False
        except duckdb.ConnectionException:
            return True
        except Exception:
            return False

    def _hist(self, ev):
        self.history.append(ev)

    # -- storage-order nondeterminism
    def _permute_table(self, name):
        salt = SIM.permute_salt
        if salt is None:
            return
        try:
            n = self._c.execute(f'SELECT COUNT(*) FROM "{name}"').fetchone()[0]
        except Exception:
            return
        if n < 2:
            return
        tmp = "__vtlsim_perm"
        explicit = SIM.explicit_perms.get(name)
        if explicit is not None and len(explicit) == n:
            order = "list_position([%s]::BIGINT[], rowid)" % ",".join(str(int(x)) for x in explicit)
        else:
            order = "hash(rowid + %d), rowid" % (int(salt) + 7919 * len(SIM.permuted))
        self._c.execute(f'CREATE TEMP TABLE "{tmp}" AS SELECT * FROM "{name}" ORDER BY {order}')
        self._c.execute(f'DELETE FROM "{name}"')
        self._c.execute(f'INSERT INTO "{name}" SELECT * FROM "{tmp}"')
        self._c.execute(f'DROP TABLE "{tmp}"')
        SIM.permuted.append((name, int(n)))
        SIM.events.append((SIM.seq, "", SIM.op, SIM.k, "permute", "%s n=%d" % (name, n)))

    def _flush_pending_perms(self):
        pend, self._pending_perm = self._pending_perm, []
        for t in pend:
            self._permute_table(t)

    # -- forwarded calls
    def execute(self, query, *a, **k):
        sql = query if isinstance(query, str) else str(query)
        ev = classify(sql) if self._role == "run" else ("OTHER", None, None)
        tok = SIM.step("execute", sql)
        if ev[0] == "EXEC":
            self._hist(("EXEC-ATTEMPT", ev[1], ev[2]))
            self._flush_pending_perms()
            if SIM.record_sql:
                SIM.sql_log.append(sql)
        elif ev[0] in ("SELECT", "COPY") and self._pending_perm:
            self._flush_pending_perms()
        self._c.execute(query, *a, **k)
        self._hist(ev)
        if self._shadow is not None and ev[0] not in ("DROP", "SELECT", "PROBE", "COPY", "QUERY", "DESCRIBE") \
                and not (ev[0] == "UPDATE" and ev[2] == "repr"):
            try:
                self._shadow.execute(query, *a, **k)
            except Exception as e:  # noqa: BLE001 - recorded, judged by the check
                self._hist(("SHADOW-ERROR", ev[1], str(e)[:200]))
        if ev[0] == "CREATE" and SIM.permute_salt is not None:
            self._pending_perm.append(ev[1])
        elif ev[0] == "DROP" and ev[1] in self._pending_perm:
            self._pending_perm.remove(ev[1])
        elif ev[0] == "EXEC" and SIM.perm_intermediates:
            self._permute_table(ev[1])
        SIM.after(tok)
        return self

    def sql(self, query, *a, **k):
        tok = SIM.step("sql", query)
        r = self._c.sql(query, *a, **k)
        SIM.after(tok)
        return r

    def register(self, name, obj):
        tok = SIM.step("register", name)
        self._c.register(name, obj)
        if self._shadow is not None:
            self._shadow.register(name, obj)
        self._hist(("REGISTER", name, None))
        SIM.after(tok)
        return self

    def unregister(self, name):
        tok = SIM.step("unregister", name)
        self._c.unregister(name)
        if self._shadow is not None:
            self._shadow.unregister(name)
        self._hist(("UNREGISTER", name, None))
        SIM.after(tok)
        return self

    def table(self, name):
        tok = SIM.step("table", name)
        r = self._c.table(name)
        SIM.after(tok)
        return r

    def create_function(self, *a, **k):
        tok = SIM.step("create_function", a[0] if a else "")
        r = self._c.create_function(*a, **k)
        if self._shadow is not None:
            self._shadow.create_function(*a, **k)
        SIM.after(tok)
        return r

    def fetchdf(self, *a, **k):
        tok = SIM.step("fetchdf")
        r = self._c.fetchdf(*a, **k)
        self._hist(("FETCHDF", None, None))
        SIM.after(tok)
        return r

    df = fetchdf

    def fetchone(self):
        tok = SIM.step("fetchone")
        r = self._c.fetchone()
        SIM.after(tok)
        return r

    def fetchall(self):
        tok = SIM.step("fetchall")
        r = self._c.fetchall()
        SIM.after(tok)
        return r

    def close(self):
        # cleanup primitive: logged, never failed (DESIGN 3.4)
        SIM.seq += 1
        SIM.k += 1
        SIM.events.append((SIM.seq, threading.current_thread().name if SIM.thread_names else "",
                           SIM.op, SIM.k, "close", ""))
        self._closed_by_engine = True
        self._hist(("CLOSE", None, None))
        if self._shadow is not None:
            self._read_shadow()
        self._c.close()

    def _read_shadow(self):
        """Unscheduled reference: every table any statement produced, read from the connection
        on which nothing was ever released or rewritten in place."""
        from .ops import _cell

        try:
            for ev in self.history:
                if ev[0] == "EXEC" and ev[1] not in SIM.shadow_tables:
                    try:
                        cur = self._shadow.execute(f'SELECT * FROM "{ev[1]}"')
                        types = [str(d[1]) for d in cur.description]
                        df = cur.fetchdf()
                        rows = [tuple(_cell(x) for x in r) for r in df.astype(object).values.tolist()]
                        SIM.shadow_tables[ev[1]] = (tuple(str(c) for c in df.columns), types, rows)
                    except Exception as e:  # noqa: BLE001
                        SIM.shadow_tables[ev[1]] = ("ERROR", str(e)[:200], None)
        finally:
            self._shadow.close()
            self._shadow = None

    @property
    def description(self):
        return self._c.description

    def __enter__(self):
        return self

    def __exit__(self, *a):
        self.close()

    def __getattr__(self, name):
        if name.startswith("__"):
            raise AttributeError(name)
        SIM.step("getattr", name)
        return getattr(self._c, name)


def sim_connect(database=":memory:", *a, **k):
    role = "run" if "config" in k else "aux"
    tok = SIM.step("connect", database)
    if SIM.initial_threads_from_knob:
        # DuckDB starts one worker thread per core at connect and the engine shrinks the pool
        # right afterwards (SET threads = VTL_THREADS).  In this VM thread creation is the
        # throughput bottleneck, so the pool is *started* at the size the engine is about to set.
        try:
            n = int(os.environ.get("VTL_THREADS", "1"))
        except ValueError:
            n = 0
        if n >= 1:
            cfg = dict(k.get("config") or {})
            cfg.setdefault("threads", n)
            k = dict(k, config=cfg)
    real = _real_connect(database, *a, **k)
    SIM.conn_count += 1
    c = SimConnection(real, database, role)
    del real
    if tok is not None:
        # 'after' fault on connect: the database was opened, the caller never gets the handle
        try:
            SIM.after(tok)
        finally:
            pass
    return c


def install_connect_seam():
    duckdb.connect = sim_connect


class _SimUUID:
    class _U:
        def __init__(self, h):
            self.hex = h

        def __str__(self):
            return self.hex

    @staticmethod
    def uuid4():
        return _SimUUID._U(SIM.next_uuid_hex())


class _SimFile:
    """Write-mode file wrapper: each write() is a seam step (ENOSPC in the middle of a file)."""

    def __init__(self, f, path):
        self._f = f
        self._path = path

    def write(self, s):
        tok = SIM.step("file_write", self._path, family="file")
        r = self._f.write(s)
        SIM.after(tok)
        return r

    def __enter__(self):
        return self

    def __exit__(self, *a):
        self._f.close()
        return False

    def __iter__(self):
        return iter(self._f)

    def __getattr__(self, n):
        return getattr(self._f, n)


def sim_open(file, mode="r", *a, **k):
    SIM.step("open", "%s %s" % (file, mode), family="file")
    f = builtins.open(file, mode, *a, **k)
    if any(ch in mode for ch in "wax+"):
        return _SimFile(f, str(file))
    return f


_mkdir_installed = False


def _install_mkdir_seam():
    """Directory creation by the engine (session directory, output folder) is a numbered,
    faultable file-seam call.  pathlib.Path.mkdir / os.mkdir are wrapped once; the wrapper is a
    pass-through unless the *caller's* frame belongs to the engine."""
    global _mkdir_installed
    if _mkdir_installed:
        return
    import pathlib
    import sys

    from . import paths as _paths

    prefix = os.path.join(_paths.REPO_SRC, "vtlengine") + os.sep
    real_path_mkdir = pathlib.Path.mkdir
    real_os_mkdir = os.mkdir

    def path_mkdir(self, *a, **k):
        if sys._getframe(1).f_code.co_filename.startswith(prefix):
            SIM.step("mkdir", str(self), family="file")
        return real_path_mkdir(self, *a, **k)

    def os_mkdir(path, *a, **k):
        if sys._getframe(1).f_code.co_filename.startswith(prefix):
            SIM.step("mkdir", str(path), family="file")
        return real_os_mkdir(path, *a, **k)

    pathlib.Path.mkdir = path_mkdir
    os.mkdir = os_mkdir
    _mkdir_installed = True


def install_engine_seams():
    """Rebind module-level names inside the engine (after vtlengine is imported)."""
    _install_mkdir_seam()
    import vtlengine.API._InternalApi as internal
    import vtlengine.duckdb_transpiler.Config.config as config
    import vtlengine.duckdb_transpiler.io._io as _io

    config.uuid = _SimUUID
    _io.open = sim_open
    internal.open = sim_open
