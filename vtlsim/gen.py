"""Seeded generator of small multi-statement VTL workloads (script + structures + data).

The generator does not need to be right about validity: oracles are models of
resources/ordering or differentials against the same engine, and an operation is
classified by what its reference run did.  It aims at *mostly* valid scripts with varied
dependency-graph shapes.

Shapes tracked so that operands are compatible:
  'S'  identifiers Id_1[,Id_2][,Id_t], measures Me_1[,Me_2], optional At_1 / VAt_1 (family structure)
  'G'  'S' aggregated to Id_1 only
  'B'  boolean-measure results (exists_in, comparisons), terminal
  'X'  anything else, terminal
  'sc' scalar
"""
import random

NUM_VALUES = [0, 1, 2, 3, 5, 7, 10, 12, 20, 25, 50, 100, -1, -4, 0.5, 1.5, 2.25, 10.75]
STR_VALUES = ["A", "B", "C", "D", "E"]
# non-integer values of large magnitude: exact as decimals, not as binary doubles
BIG_NUM = [324098.03, 1234567.89, 98765.4321, 1000000000.5, 7654321.07, -250000.01]
DATE_VALUES = ["2020-01-31", "2020-02-29", "2020-03-31", "2020-04-30", "2020-06-30", "2020-07-31", "2020-09-30", "2020-12-31", "2021-03-31"]
TP_VALUES = ["2020Q1", "2020Q2", "2020Q3", "2021Q1", "2020M01", "2020M06", "2021M12", "2019A", "2020S1", "2022"]
VIRAL_VALUES = ["A", "B", "C", "N", "M", None]
# strings that some reader / writer on a data path may take for something else (null tokens, numbers, booleans)
TRICKY_STR = ["NA", "null", "None", "nan", "N/A", "NULL", "<NA>", "#N/A", "TRUE", "1e5", "00123", "n/a", "NaN", "-", "é"]


def _comp(name, typ, role, nullable):
    return {"name": name, "type": typ, "role": role, "nullable": nullable}


class Family:
    """Common structure of the generated inputs."""

    def __init__(self, rng, viral=None, time_period=None, me_int=None):
        self.has_id2 = rng.random() < 0.75
        self.has_tp = (rng.random() < 0.25) if time_period is None else time_period
        self.me1_type = ("Integer" if rng.random() < 0.4 else "Number") if me_int is None else ("Integer" if me_int else "Number")
        self.has_me2 = rng.random() < 0.35
        self.has_at = rng.random() < 0.2
        self.viral = (rng.random() < 0.2) if viral is None else viral
        self.tricky = rng.random() < 0.3
        self.bignum = rng.random() < 0.25
        self.tp_type = "Date" if (self.has_tp and rng.random() < 0.4) else "Time_Period"
        self.tp_n = rng.choice([4, 6, 9])
        self.id2_values = rng.sample(TRICKY_STR, 3) if self.tricky else STR_VALUES[:3]
        # random case variants are exercised by C29, not here; keep canonical names

    def ids(self):
        out = ["Id_1"]
        if self.has_id2:
            out.append("Id_2")
        if self.has_tp:
            out.append("Id_t")
        return out

    def components(self):
        c = [_comp("Id_1", "Integer", "Identifier", False)]
        if self.has_id2:
            c.append(_comp("Id_2", "String", "Identifier", False))
        if self.has_tp:
            c.append(_comp("Id_t", self.tp_type, "Identifier", False))
        c.append(_comp("Me_1", self.me1_type, "Measure", True))
        if self.has_me2:
            c.append(_comp("Me_2", "Number", "Measure", True))
        if self.has_at:
            c.append(_comp("At_1", "String", "Attribute", True))
        if self.viral:
            c.append(_comp("VAt_1", "String", "Viral Attribute", True))
        return c

    def columns(self):
        return [c["name"] for c in self.components()]

    def rows(self, rng, n, id1_max=4):
        keys = set()
        rows = []
        tries = 0
        while len(rows) < n and tries < n * 20:
            tries += 1
            k = [rng.randint(1, id1_max)]
            if self.has_id2:
                k.append(rng.choice(self.id2_values))
            if self.has_tp:
                k.append(rng.choice(DATE_VALUES[:self.tp_n] if self.tp_type == "Date" else TP_VALUES[:4]))
            if tuple(k) in keys:
                continue
            keys.add(tuple(k))
            r = list(k)
            if self.me1_type == "Integer":
                r.append(None if rng.random() < 0.12 else rng.choice([v for v in NUM_VALUES if isinstance(v, int)]))
            else:
                r.append(None if rng.random() < 0.12 else float(rng.choice(BIG_NUM + NUM_VALUES[:4] if self.bignum else NUM_VALUES)))
            if self.has_me2:
                r.append(None if rng.random() < 0.12 else float(rng.choice(NUM_VALUES)))
            if self.has_at:
                r.append(rng.choice((TRICKY_STR + [""] if self.tricky else STR_VALUES) + [None]))
            if self.viral:
                r.append(rng.choice(VIRAL_VALUES))
            rows.append(r)
        return rows


def csv_text(columns, rows):
    def cell(v):
        if v is None:
            return ""
        if isinstance(v, bool):
            return "true" if v else "false"
        if isinstance(v, float) and v == int(v):
            return "%.1f" % v
        s = str(v)
        if any(ch in s for ch in ',"\n'):
            s = '"' + s.replace('"', '""') + '"'
        return s

    return "\n".join([",".join(columns)] + [",".join(cell(v) for v in r) for r in rows]) + "\n"


VIRAL_RULES = [
    'define viral propagation VP_{i} (variable VAt_1) is when "A" then "Z"; else "D" end viral propagation;',
    'define viral propagation VP_{i} (variable VAt_1) is when "A" then "Q"; else "W" end viral propagation;',
    'define viral propagation VP_{i} (variable VAt_1) is when "C" then "C"; when "N" then "N"; else "F" end viral propagation;',
    'define viral propagation VP_{i} (variable VAt_1) is when "A" and "B" then "C"; when "C" then "X"; when "A" then "A"; when "B" then "B"; else "D" end viral propagation;',
    'define viral propagation VP_{i} (variable VAt_1) is when "C" and "M" then "N"; when "M" then "M"; else " " end viral propagation;',
    'define viral propagation VP_{i} (variable VAt_1) is aggregate max end viral propagation;',
    'define viral propagation VP_{i} (variable VAt_1) is aggregate min end viral propagation;',
    'define viral propagation VP_{i} (variable VAt_1) is when null then "Nullable"; else "NO" end viral propagation;',
]


class Workload:
    pass


def generate(rng, *, n_inputs=None, n_statements=None, rows=None, viral=None, time_period=None,
             carriers=("df", "csv_text", "parquet_df"), allow_scalar=True, allow_udo=True,
             allow_analytic=True, allow_dpr=True, total_orders_only=True, persist_all=False,
             shuffle_statements=True, group_focus=False):
    """Returns a dict: script, statements (ordered as written), structures, data (op 'data'
    form), meta (graph edges, persistence vector, shapes)."""
    fam = Family(rng, viral=viral, time_period=time_period)
    k = n_inputs or rng.choice([1, 1, 2, 2, 3, 4])
    m = n_statements or rng.choice([1, 2, 2, 3, 3, 4, 5, 6, 7, 8])
    inputs = ["DS_%d" % (i + 1) for i in range(k)]
    avail = {n: "S" for n in inputs}          # name -> shape
    scalars = []
    stmts = []                                # (name, op '<-' | ':=', expr, reads)
    defs = []
    used_udo = used_dpr = False
    ids = fam.ids()
    full_order = ", ".join(ids[1:]) if len(ids) > 1 else None

    def pick(shape="S", allow_inputs=True, exclude=()):
        c = [n for n, s in avail.items() if s == shape and n not in exclude and (allow_inputs or n not in inputs)]
        # bias towards recent results to get chains, but keep fan-in/fan-out
        if not c:
            return None
        if rng.random() < 0.5:
            return c[-1] if rng.random() < 0.6 else rng.choice(c)
        return rng.choice(c)

    for i in range(m):
        name = rng.choice(["R_%d", "R_%d", "R_%d", "Out_%d", "tmp_%d"]) % (i + 1)
        r = rng.random()
        if group_focus and rng.random() < 0.5:
            r = rng.choice([0.56, 0.58, 0.6, 0.65, 0.905, 0.91, 0.92])   # aggregations / analytic over groups
        a = pick("S")
        b = pick("S", exclude=() if rng.random() < 0.15 else (a,)) or a
        const = rng.choice([1, 2, 3, 5, 10])
        shape = "S"
        reads = []
        if r < 0.18:
            expr = "%s %s %s" % (a, rng.choice(["+", "-", "*"]), b)
            reads = [a, b]
        elif r < 0.28:
            expr = "%s %s %s" % (a, rng.choice(["+", "-", "*"]), const)
            reads = [a]
        elif r < 0.36:
            if fam.bignum and fam.me1_type != "Integer" and rng.random() < 0.6:
                expr = "%s[filter Me_1 %s %s]" % (a, rng.choice(["=", "<>", ">="]), rng.choice(BIG_NUM))
            else:
                expr = "%s[filter Me_1 %s %s]" % (a, rng.choice([">", "<", ">=", "<>", "="]), const)
            reads = [a]
        elif r < 0.43:
            expr = "%s[calc Me_1 := Me_1 %s %s]" % (a, rng.choice(["+", "*", "-"]), const)
            reads = [a]
        elif r < 0.50:
            op = rng.choice(["union", "intersect", "setdiff", "symdiff"])
            expr = "%s(%s, %s)" % (op, a, b)
            reads = [a, b]
        elif r < 0.55:
            expr = "nvl(%s, 0)" % a if fam.me1_type == "Integer" and not fam.has_me2 and not fam.has_at and not fam.viral else "%s[calc Me_1 := nvl(Me_1, 0)]" % a
            reads = [a]
        elif r < 0.61:
            expr = "%s[aggr Me_1 := %s(Me_1) group by Id_1]" % (a, rng.choice(["sum", "max", "min", "count", "avg"]))
            shape = "G"
            reads = [a]
        elif r < 0.66:
            g = pick("G")
            if g:
                g2 = pick("G") or g
                expr = "%s + %s" % (g, g2) if rng.random() < 0.6 else "%s * %d" % (g, const)
                shape = "G"
                reads = [g, g2] if "+" in expr else [g]
            else:
                expr = "%s(%s group by Id_1)" % (rng.choice(["sum", "max", "min"]), a)
                shape = "X"
                reads = [a]
        elif r < 0.71:
            expr = "exists_in(%s, %s%s)" % (a, b, rng.choice(["", ", all", ", true", ", false"]))
            shape = "B"
            reads = [a, b]
        elif r < 0.76:
            expr = "if %s#Me_1 > %d then %s else %s" % (a, const, a, b)
            reads = [a, b]
        elif r < 0.81:
            jt = rng.choice(["inner_join", "left_join", "full_join"]) if a != b else "inner_join"
            if a != b:
                expr = "%s(%s as d1, %s as d2 calc Me_1 := d1#Me_1 + d2#Me_1 keep Me_1)" % (jt, a, b)
                expr = "%s(%s as d1, %s as d2 rename d1#Me_1 to M_a, d2#Me_1 to M_b)" % (jt, a, b) if rng.random() < 0.5 and not fam.has_me2 and not fam.has_at and not fam.viral else expr
                shape = "X"
                reads = [a, b]
            else:
                expr = "%s[rename Me_1 to Me_9]" % a
                shape = "X"
                reads = [a]
        elif r < 0.85 and allow_scalar:
            if scalars and rng.random() < 0.7:
                s = rng.choice(scalars)
                expr = rng.choice(["%s[filter Me_1 > %s]", "%s * %s", "%s[calc Me_1 := Me_1 + %s]"]) % (a, s)
                reads = [a, s]
            else:
                expr = str(rng.choice([2, 3, 5, 1.5])) if rng.random() < 0.7 else "%d + %d" % (const, 1)
                shape = "sc"
                name = "sc_%d" % (i + 1)
        elif r < 0.89 and allow_udo:
            used_udo = True
            expr = "udo_add(%s, %s)" % (a, b)
            reads = [a, b]
        elif r < 0.93 and allow_analytic and full_order:
            fn = rng.choice(["sum", "max", "min", "count", "avg", "first_value", "last_value", "first_value", "last_value", "lag", "lead"])
            # total ordering on the operand's key: partition by Id_1, order by every other identifier, any direction
            order = ", ".join("%s%s" % (c, rng.choice(["", "", " asc", " desc"])) for c in ids[1:])
            window = rng.choice(["", "", " data points between unbounded preceding and unbounded following",
                                 " data points between 1 preceding and 1 following",
                                 " data points between unbounded preceding and current data point",
                                 " data points between current data point and unbounded following",
                                 " data points between 2 preceding and current data point",
                                 " data points between 1 following and 2 following"])
            if fn in ("lag", "lead"):
                expr = "%s(%s, %d over (partition by Id_1 order by %s))" % (fn, a, rng.choice([1, 1, 2]), order)
            else:
                expr = "%s(%s over (partition by Id_1 order by %s%s))" % (fn, a, order, window)
            reads = [a]
            shape = "S" if fn not in ("count",) else "X"
        elif r < 0.945 and fam.has_tp and not fam.has_at and not fam.viral:
            # time-series operators: the result per series depends on the order of the periods, never on row order
            fn = rng.choice(["flow_to_stock(%s)", "stock_to_flow(%s)", "timeshift(%s, 1)", "timeshift(%s, -1)", "fill_time_series(%s, all)", "fill_time_series(%s, single)"])
            expr = fn % a
            reads = [a]
            shape = "X" if "fill" in fn else "S"
        elif r < 0.96 and allow_dpr:
            used_dpr = True
            expr = "check_datapoint(%s, dpr_1%s)" % (a, rng.choice(["", " all", " invalid"]))
            shape = "X"
            reads = [a]
        else:
            expr = "%s(%s)" % (rng.choice(["abs", "ceil", "floor"]), a) if not fam.has_at and not fam.viral and fam.me1_type != "Integer" else "%s[calc Me_1 := abs(Me_1)]" % a
            reads = [a]
        persistent = persist_all or rng.random() < 0.5
        stmts.append({"name": name, "op": "<-" if persistent else ":=", "expr": expr,
                      "reads": sorted(set(x for x in reads if x)), "shape": shape})
        avail[name] = shape
        if shape == "sc":
            scalars.append(name)
    # make sure at least one persistent result
    if not any(s["op"] == "<-" for s in stmts):
        stmts[-1]["op"] = "<-"
    if fam.viral and rng.random() < 0.85:
        rule = VIRAL_RULES[3] if (group_focus and rng.random() < 0.4) else rng.choice(VIRAL_RULES)
        defs.append(rule.format(i=1))
    if used_udo:
        defs.append("define operator udo_add (x dataset, y dataset) returns dataset is x + y end operator;")
    if used_dpr:
        defs.append("define datapoint ruleset dpr_1 (variable Me_1) is r1: Me_1 > 2 errorcode \"low\" errorlevel 1; r2: Me_1 < 100 end datapoint ruleset;")
    written = list(stmts)
    if shuffle_statements and len(written) > 1 and rng.random() < 0.6:
        rng.shuffle(written)
    lines = defs + ["%s %s %s;" % (s["name"], s["op"], s["expr"]) for s in written]
    if rng.random() < 0.3:
        rng.shuffle(lines)
    script = "\n".join(lines) + "\n"
    structures = {"datasets": [{"name": n, "DataStructure": fam.components()} for n in inputs]}
    cols = fam.columns()
    data = {}
    nrows = {}
    for n in inputs:
        nr = rows if rows is not None else rng.choice([0, 1, 2, 3, 4, 5, 6, 8])
        rs = fam.rows(rng, nr, id1_max=2 if group_focus else 4)
        nrows[n] = len(rs)
        kind = rng.choice(list(carriers))
        if kind == "csv_text":
            data[n] = {"kind": "csv_text", "text": csv_text(cols, rs)}
        else:
            data[n] = {"kind": kind, "columns": cols, "rows": rs}
    used_inputs = sorted({x for s in stmts for x in s["reads"] if x in inputs})
    meta = {
        "n_inputs": k, "n_statements": m, "inputs_used": used_inputs,
        "edges": sorted((x, s["name"]) for s in stmts for x in s["reads"]),
        "persist": "".join("P" if s["op"] == "<-" else "n" for s in written),
        "order": [s["name"] for s in written],
        "shapes": {s["name"]: s["shape"] for s in stmts},
        "viral": fam.viral, "time_period": fam.has_tp, "nrows": nrows,
        "analytic": any(" over (" in s["expr"] for s in stmts),
    }
    return {"script": script, "structures": structures, "data": data, "meta": meta}


def graph_shape_key(meta):
    """Canonical-ish key of the dependency-graph shape (names abstracted by position)."""
    names = {}
    for a, b in meta["edges"]:
        for n in (a, b):
            if n not in names:
                names[n] = ("I" if n.startswith("DS_") else "R") + str(len(names))
    return (tuple(sorted((names[a], names[b]) for a, b in meta["edges"])), meta["persist"], tuple(names.get(n, "?") for n in meta["order"]))


def as_op(w, api="run", kwargs=None, env=None, output_folder=False):
    return {"api": api, "script": w["script"], "structures": w["structures"], "data": w["data"],
            "kwargs": dict(kwargs or {}), "output_folder": output_folder, "env": dict(env or {}),
            "meta": w.get("meta")}
