"""Scheduler scenario used by the determinism self-test: the full C17 path (real threads,
baton scheduler, simulated locks) must produce the same schedule, the same seam-event
digest and the same outcomes for the same seed in every interpreter."""
import hashlib
import random


def digest_for_selftest(seed):
    from .checks import c17

    rng = random.Random(seed * 7 + 1)
    scn = c17.make_scenario(rng, [], [seed * 3 + 11, seed * 5 + 12])
    c17._preparse(scn)
    ch = c17._scenario_child(scn)
    h = hashlib.sha256()
    h.update(repr(ch["schedule"]).encode())
    h.update(repr(sorted(ch["results"].items())).encode())
    h.update(ch["seam_digest"].encode())
    h.update(repr((ch["steps"], ch["failure"], ch["interleaving"], ch["shared_digest"])).encode())
    return h.hexdigest()
