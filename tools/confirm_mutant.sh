#!/bin/bash
# usage: confirm_mutant.sh <name> <patch.diff> <demo.py>
# Confirms a seeded change in a fresh scratch worktree: applies, demo passes on /repo and fails on the
# changed tree, pinned baseline passes, upstream suite with the stand-in shows no new failures.
# Leaves the worktree at /tmp/cm/<name> for running checks with VERIF_REPO; remove it afterwards.
set -u
NAME=$1; PATCH=$2; DEMO=$3
WT=/tmp/cm/$NAME
mkdir -p /tmp/cm
git -C /repo worktree remove --force $WT >/dev/null 2>&1
git -C /repo worktree add --detach $WT HEAD >/dev/null 2>&1 || { echo "worktree failed"; exit 2; }
git -C $WT apply $PATCH || { echo "PATCH DOES NOT APPLY"; exit 2; }
echo "== demo on /repo:"; timeout 900 /venv/bin/python $DEMO /repo > /tmp/cm/$NAME.demo_base.log 2>&1; echo "exit=$?"
echo "== demo on changed tree:"; timeout 900 /venv/bin/python $DEMO $WT > /tmp/cm/$NAME.demo_mut.log 2>&1; echo "exit=$?"; tail -3 /tmp/cm/$NAME.demo_mut.log
echo "== pinned baseline:"; (cd $WT && /venv/bin/python -m pytest -ra -q -p no:cacheprovider --timeout=900 --continue-on-collection-errors 2>&1 | tail -1)
if [ "${SKIP_SUITE:-0}" != "1" ]; then echo "== upstream suite with stand-in:"; /tmp/vtlkit/run_suite.sh $WT 2>&1 | tail -6; fi
