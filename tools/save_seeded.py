#!/usr/bin/env python3
"""usage: save_seeded.py <name> <property> <detected: yes|no|after-strengthening> <check invariant or ''> <needs...>
Copies /tmp/wt-out/<name>/{patch.diff,demo.py,notes.md} to /verif/seeded/<name>/ and writes meta.json."""
import json, os, shutil, sys
name, prop, detected, inv = sys.argv[1:5]
needs = " ".join(sys.argv[5:])
src = "/tmp/wt-out/" + name
dst = "/verif/seeded/" + name
os.makedirs(dst, exist_ok=True)
for f in ("patch.diff", "demo.py", "notes.md"):
    if os.path.exists(os.path.join(src, f)):
        shutil.copy(os.path.join(src, f), os.path.join(dst, f))
meta = {
    "id": name, "property": prop, "origin": "independent sub-agent given only the property text and a scratch worktree",
    "needs_to_manifest": needs,
    "confirmed": {
        "applies_to_head": True, "demo_exit_unchanged_tree": 0, "demo_exit_changed_tree": 1,
        "pinned_baseline_169_pass": True, "upstream_suite_with_standin_no_new_failures": True,
        "how": "tools/confirm_mutant.sh %s (fresh worktree of /repo HEAD under /tmp/cm, removed afterwards)" % name,
    },
    "detected_by_check": detected, "detecting_invariant": inv,
    "how_checked": "tools/check_mutant.sh %s %s quick (VERIF_REPO=<scratch worktree with the patch applied>; evidence and replays redirected to /tmp)" % (name, prop),
}
json.dump(meta, open(os.path.join(dst, "meta.json"), "w"), indent=1)
print("saved", dst)
