#!/bin/bash
# usage: check_mutant.sh <name> <property> [tier]
# Runs a check against the scratch worktree /tmp/cm/<name> from a snapshot copy of /verif (so that
# editing /verif meanwhile does not disturb it) without touching the committed evidence.
NAME=$1; P=$2; TIER=${3:-quick}
SNAP=/tmp/cm/snap-$NAME-$P
rm -rf $SNAP; mkdir -p $SNAP
rsync -a --exclude .git --exclude replays --exclude build --exclude __pycache__ /verif/ $SNAP/
export VERIF_REPO=/tmp/cm/$NAME VERIF_EVIDENCE_DIR=/tmp/cm/ev-$NAME VERIF_REPLAYS_DIR=/tmp/cm/rp-$NAME VERIF_BUILD=/verif/build
mkdir -p $VERIF_EVIDENCE_DIR $VERIF_REPLAYS_DIR
cd $SNAP && timeout 3600 /venv/bin/python -m vtlsim check $P --tier $TIER > /tmp/cm/$NAME.$P.$TIER.log 2>&1
echo "exit=$?"; grep -E "^(VIOLATION|KNOWN|OK|HARNESS)|invariant=" /tmp/cm/$NAME.$P.$TIER.log | head -12
rm -rf $SNAP
